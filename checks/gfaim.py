"""Input AIMING only (never a verdict): error patterns within the correction capacity that look harmless to a decoder that
examines only SOME of the syndromes.  For a Reed-Solomon code with r check symbols over GF(q) (generator roots a^b .. a^(b+r-1)):
  "blind": w <= floor(r/2) errors whose syndromes S_j vanish for a window J of w - 1 consecutive j (a shortcut that tests those and
           skips the decoder sees an intact block);
  "ghost": w <= floor(r/2) errors whose first w syndromes equal those of ONE error of value c at an undamaged position (a single-error
           fast path that confirms its guess on a few syndromes corrects the wrong symbol).
Both are solved by Gaussian elimination over GF(q); TLC's reference decoder judges what the real decoder makes of them."""

PRIM = {1: 0x11D, 2: 0x12D, 3: 0x13, 4: 0x43, 5: 0x409, 6: 0x1069}


class GF:
    def __init__(self, q, prim):
        self.q = q
        self.exp = [0] * (2 * q)
        self.log = [0] * q
        x = 1
        for i in range(q - 1):
            self.exp[i] = x
            self.log[x] = i
            x <<= 1
            if x >= q:
                x ^= prim
        for i in range(q - 1, 2 * q):
            self.exp[i] = self.exp[i - (q - 1)]

    def mul(self, a, b):
        return 0 if a == 0 or b == 0 else self.exp[self.log[a] + self.log[b]]

    def inv(self, a):
        return self.exp[(self.q - 1) - self.log[a]]

    def pw(self, e):                      # alpha ^ e
        return self.exp[e % (self.q - 1)]


def solve(gf, A, rhs):
    """one solution of A x = rhs over GF(q) (A: m x w, m <= w; free variables set to 1); None when inconsistent"""
    m, w = len(A), len(A[0])
    M = [row[:] + [rhs[i]] for i, row in enumerate(A)]
    piv, r = [], 0
    for c in range(w):
        p = next((i for i in range(r, m) if M[i][c]), None)
        if p is None:
            continue
        M[r], M[p] = M[p], M[r]
        iv = gf.inv(M[r][c])
        M[r] = [gf.mul(v, iv) for v in M[r]]
        for i in range(m):
            if i != r and M[i][c]:
                f = M[i][c]
                M[i] = [a ^ gf.mul(f, b) for a, b in zip(M[i], M[r])]
        piv.append(c)
        r += 1
        if r == m:
            break
    if any(all(v == 0 for v in M[i][:w]) and M[i][w] for i in range(m)):
        return None
    x = [0] * w
    free = [c for c in range(w) if c not in piv]
    for c in free:
        x[c] = 1
    for i, c in enumerate(piv):
        v = M[i][w]
        for fc in free:
            v ^= gf.mul(M[i][fc], x[fc])
        x[c] = v
    return x


def patterns(f, q, base, n, r, rng, per=1):
    """list of (kind, [[position, xor value], ...]); positions count from the first (highest-degree) symbol of the n-symbol word"""
    gf = GF(q, PRIM[f])
    t = r // 2
    out = []
    for w in range(2, min(t, 6) + 1):
        for _ in range(per):
            pos = sorted(rng.sample(range(n), w))
            X = [n - 1 - p for p in pos]                     # exponent of the locator of each position
            for j0 in sorted({0, 1, r - (w - 1)}):
                if j0 < 0 or j0 + (w - 1) > r:
                    continue
                A = [[gf.pw(x * (base + j)) for x in X] for j in range(j0, j0 + w - 1)]
                e = solve(gf, A, [0] * (w - 1))
                if e and all(e):
                    out.append(("blind", [[p, v] for p, v in zip(pos, e)]))
            ghost = rng.choice([p for p in range(n) if p not in pos])
            c = rng.randrange(1, q)
            y = n - 1 - ghost
            A = [[gf.pw(x * (base + j)) for x in X] for j in range(w)]
            e = solve(gf, A, [gf.mul(c, gf.pw(y * (base + j))) for j in range(w)])
            if e and all(e):
                out.append(("ghost", [[p, v] for p, v in zip(pos, e)]))
    return out


def generator(gf, base, r):
    g = [1]
    for i in range(r):
        root = gf.pw(base + i)
        ng = [0] * (len(g) + 1)
        for j, c in enumerate(g):            # multiply by (x - root); coefficients highest degree first
            ng[j] ^= c
            ng[j + 1] ^= gf.mul(c, root)
        g = ng
    return g


def parity(gf, g, data):
    r = len(g) - 1
    rem = list(data) + [0] * r
    for i in range(len(data)):
        c = rem[i]
        if c:
            for j in range(1, len(g)):
                rem[i + j] ^= gf.mul(g[j], c)
    return rem[len(data):]


def zero_parity_data(f, q, base, k, r, lead, rng):
    """data of k symbols whose r parity symbols START with `lead` zeros (the remainder of the division is shorter than r):
    the parity is linear in the data, so `lead` of the data symbols are solved for after the others were drawn at random"""
    gf = GF(q, PRIM[f])
    g = generator(gf, base, r)
    unit = [parity(gf, g, [1 if j == i else 0 for j in range(k)]) for i in range(k)]     # parity of each unit vector
    for _ in range(50):
        data = [rng.randrange(q) for _ in range(k)]
        idx = rng.sample(range(k), lead)
        rest = parity(gf, g, [0 if i in idx else d for i, d in enumerate(data)])
        A = [[unit[i][row] for i in idx] for row in range(lead)]
        x = solve(gf, A, [rest[row] for row in range(lead)])
        if x is None:
            continue
        for i, v in zip(idx, x):
            data[i] = v
        p = parity(gf, g, data)
        if all(v == 0 for v in p[:lead]) and any(p):
            return data
    return None
