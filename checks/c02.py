"""C02 - Data Matrix: what is written is what is read; encoding terminates; refusal only when the text does not fit.
The real EncodeHighLevel / DecodedBitStreamParser_decode / writer / pure-barcode reader are driven over exhaustive class
strings and seeded texts; TLC (spec/DMHL.tla) decodes the emitted codewords with the ISO/IEC 16022 reference decoder and judges
termination, round trip, padding, minimal symbol and legitimacy of refusals."""
import itertools, random
import vlib, dmlib

# one representative per character class of the encodation rules: digit, upper, lower, space, X12 separators '*' '>' CR,
# EDIFACT-only '^', punctuation '!', control 0x01, extended 0xE9, extended digit-like 0xB1, DEL-range '~'
CLASSES = [ord("1"), ord("A"), ord("a"), 32, ord("*"), 13, ord("^"), ord("!"), 1, 0xE9, ord("~")]
FAMILIES = {
    "edifact": [ord("^"), ord("!"), ord("A"), 0xE9, ord("1")],
    "x12": [ord("A"), ord("*"), 13, ord("a"), ord("1")],
    "c40text": [ord("A"), ord("a"), 0xE9, ord("1"), 1],
    "b256": [0xE9, ord("A"), ord("1"), 0x80],
}
MACRO05 = [91, 41, 62, 30, 48, 53, 29]
MACRO06 = [91, 41, 62, 30, 48, 54, 29]
TRAIL = [30, 4]
HINTS = [(0, (), ()), (1, (), ()), (2, (), ()), (0, (), (16, 16)), (0, (12, 12), ()), (0, (), (18, 8)), (0, (), (26, 12)),
         (0, (32, 32), ()), (1, (), (14, 14)), (2, (), (48, 16)), (0, (10, 10), (12, 12)), (0, (), (32, 8))]


def hl(text, shape=0, mn=(), mx=(), img=(), tag=""):
    return dict(op="hl", text=list(text), utf=0, shape=shape, mn=list(mn), mx=list(mx), img=list(img), tag=tag)


def workload(ctx):
    rng = random.Random(ctx.seed * 101 + 9)
    ev = []
    # (1) exhaustive class strings over the full alphabet, no hints
    nfull = 3 if ctx.quick else 5
    for n in range(1, nfull + 1):
        for t in itertools.product(CLASSES, repeat=n):
            ev.append(hl(t, tag="class%d" % n))
    # (2) exhaustive strings over the 4-5 class family alphabets (EOD interactions need 6-10 characters)
    nfam = 6 if ctx.quick else 8
    for name, alpha in FAMILIES.items():
        for n in range(nfull + 1, nfam + 1):
            for t in itertools.product(alpha, repeat=n):
                if ctx.quick and n == nfam and (hash((name, t)) + ctx.seed) % 4:
                    continue
                ev.append(hl(t, tag=name))
    # (3) seeded longer texts around the capacities of the 30 sizes, with shape / size hints and the image path
    alphabet = CLASSES + [ord("2"), ord("B"), ord("b"), ord(">"), ord("?"), 0x80, 0xFF, 0, 127, ord("Z"), ord("9")]
    for k in range(300 if ctx.quick else 20000):
        style = rng.randrange(6)
        n = rng.choice([rng.randint(1, 14), rng.randint(10, 40), rng.randint(30, 120)] + ([rng.randint(100, 900)] if k % 20 == 0 else []))
        if style == 0:
            t = [rng.choice(alphabet) for _ in range(n)]
        elif style == 1:       # runs of one class
            t = []
            while len(t) < n:
                t += [rng.choice(alphabet)] * rng.randint(1, 9)
            t = t[:n]
        elif style == 2:       # mostly digits
            t = [48 + rng.randrange(10) if rng.random() < 0.85 else rng.choice(alphabet) for _ in range(n)]
        elif style == 3:       # all extended (Base 256 runs that may exactly fill a symbol)
            t = [rng.randint(128, 255) for _ in range(n)]
        elif style == 4:       # X12 / EDIFACT shaped
            pool = rng.choice([[65, 66, 49, 50, 42, 13, 62, 32], [94, 33, 65, 49, 63, 64, 32]])
            t = [rng.choice(pool) if rng.random() < 0.93 else rng.choice(alphabet) for _ in range(n)]
        else:                  # macro envelopes
            t = rng.choice([MACRO05, MACRO06]) + [rng.choice(alphabet[:8]) for _ in range(n)] + TRAIL
        shape, mn, mx = rng.choice(HINTS) if rng.random() < 0.5 else (0, (), ())
        img = ()
        if k % 4 == 0:
            img = rng.choice([(0, 0), (0, 0), (rng.randint(1, 300), rng.randint(1, 300)), (200, 200)])
        ev.append(hl(t, shape, mn, mx, img, tag="seeded"))
    # (4) capacity fillers: digit strings and extended strings that exactly fill / overflow each of the 30 sizes
    for (h, w, cap) in dmlib.SIZES:
        shape = 2 if h != w else 1
        for n in (2 * cap - 1, 2 * cap, 2 * cap + 1):
            ev.append(hl([48 + (i % 10) for i in range(n)], shape, (), (w, h), (0, 0) if cap < 400 else (), tag="digits-fill"))
        if True:      # Base 256 runs that exactly fill / just miss each size (one- and two-byte length fields)
            for n in (cap - 3, cap - 2, cap - 1):
                if n >= 1:
                    ev.append(hl([0xE9] * n, shape, (), (w, h), tag="b256-fill"))
    # texts that begin like a macro envelope and do not end like one (header without trailer, header only, trailer without header, the
    # other macro's trailer position): they are ordinary texts
    for hdr in (MACRO05, MACRO06):
        for body in ([], [65], list(b"HELLO WORLD 123"), list(b"abc") + TRAIL[:1], list(b"12345678") + [4], TRAIL[::-1]):
            ev.append(hl(hdr + body, tag="macro-like"))
    ev.append(hl(list(b"HELLO") + TRAIL, tag="macro-like"))
    # (9) end of a Text / C40 run, exhaustively over a small class alphabet: a run of 6..11 basic characters followed by EVERY 4-character
    #     tail over {basic, shifted, digit, shift-2 punctuation, two extended characters} (backtracking at end of data: the remainder of the
    #     value count modulo 3 x the character taken back x the free codewords of the symbol reached)

    for base, alpha in ((97, [97, 65, 49, 37, 0xDA, 0x85]), (65, [65, 97, 49, 37, 0xDA, 0x85])):
        for plen in (range(6, 12) if base == 97 or not ctx.quick else (8, 9)):
            for tail in itertools.product(alpha, repeat=4):
                if ctx.quick and base == 65 and hash(tail) % 3:
                    continue
                ev.append(hl([base] * plen + list(tail), tag="eod-tails"))
    # the recorded instance of known finding C02-c40-text-end-of-data-unexpected-case (always replayed)
    ev.append(hl(list("aaaaaaaaaaaA1\u00e9*\u00da".encode("latin-1")), tag="c40-eod-unexpected-case"))
    # (5) macro envelopes round a run of ONE mode's native characters, every length: the trailer (RS EOT) is not part of the encoded
    #     message, so end-of-data arithmetic that looks at the rest of the text must stop before it; with and without a tight MAX_SIZE
    for macro in (MACRO05, MACRO06):
        for unit in ([33], [65], [97], [49], [65, 42], [94, 64]):
            for n in (list(range(1, 41)) if not ctx.quick or unit == [33] else list(range(1, 41, 3))) + [488, 489, 1736]:
                t = macro + (unit * n)[:n] + TRAIL
                ev.append(hl(t, tag="macro-run"))
                if n <= 40 and n % 4 == 0:
                    ev.append(hl(t, 0, (), rng.choice([(14, 14), (16, 16), (18, 18), (32, 8), (26, 12)]), tag="macro-run"))
    # (6) run-length sweeps: a run of one mode's native characters of EVERY length (mode-specific length fields, triplet / quadruple
    #     boundaries, end-of-data shortcuts that depend on the free codewords of the symbol reached), alone and after 1-3 digits
    runs = [([64], 100), ([65], 100), ([97], 100), ([65, 42], 60), ([94], 100), ([0xE9], 260), ([0x80], 60), ([49], 100), ([33, 63], 40)]
    for unit, top in runs:
        step = 1 if (not ctx.quick or top <= 100) else 1
        for n in range(1, top + 1, step):
            t = (unit * n)[:n]
            ev.append(hl(t, tag="run"))
            if n % 3 == ctx.seed % 3:
                ev.append(hl([49] * (1 + n % 3) + t, tag="run"))
    # (7) one extended / foreign character inside a C40, Text, X12 or EDIFACT run (upper shift inside a segment, mode exits)
    for unit in ([65], [97], [65, 42, 13], [94, 64]):
        for i in range(3, 11):
            for j in range(0, 7):
                for ext in ((0x80, 0xA0, 0xE0, 0xE9, 0xFF) if unit[0] in (65, 97) else (0xE9, 97, 33)):
                    ev.append(hl((unit * 12)[:i] + [ext] + (unit * 12)[:j], tag="ext-in-run"))
    # (8) C40 / Text runs whose last characters mix shifted, extended and basic characters (end-of-data backtracking, unlatch shortcuts)
    for k in range(1500 if ctx.quick else 40000):
        base = rng.choice([list(b"abcdefghijklmnopqrstuvwxyz  "), list(b"ABCDEFGHIJKLMNOPQRSTUVWXYZ  ")])
        n = rng.randint(6, 50)
        t = [rng.choice(base) for _ in range(n)]
        for _ in range(rng.randint(1, 4)):
            t[rng.randrange(max(0, n - 8), n)] = rng.choice([78, 70, 65, 97, 110, 0xA0, 0xE9, 49, 32, 33, 1])
        shape, mn, mx = rng.choice(HINTS) if k % 5 == 0 else (0, (), ())
        ev.append(hl(t, shape, mn, mx, tag="c40-eod"))
    # (9) histories: a text refused as too big for a small MAX_SIZE (leaving a mode encoder in the middle of a triplet / quadruple /
    #     run) immediately followed by a text of the same mode - state kept between calls must not leak into the next encodation
    for unit in ([65, 66, 42, 13], [65, 90, 32], [97, 122, 32], [94, 64, 33], [0xE9, 0x80], [49, 65, 97]):
        for n in range(9, 24):
            big = (unit * 30)[:n]
            ev.append(hl(big, 1, (), (10, 10) if n < 14 else (12, 12), tag="history-refused"))
            ev.append(hl((unit * 30)[:n + 3], tag="history-next"))
    # (5) non Latin-1 and empty texts must be refused
    ev.append(hl([0x3042, 65], tag="nonlatin1")); ev.append(hl([65, 0x20AC], tag="nonlatin1")); ev.append(hl([0x100], tag="nonlatin1"))
    return ev


MCHINTS = {"MC_DMEnc": (0, (), ()), "MC_DMEnc_max14": (0, (), (14, 14)), "MC_DMEnc_max18": (0, (), (18, 18)), "MC_DMEnc_rect": (2, (), (48, 16))}


def design_check(ctx):
    """TLC explores the encoder state machine (spec/DMEnc.tla): every message up to a length over class alphabets, with and
    without size hints, plus random long walks.  Terminal states that would contradict C02 on the MODEL (panic, runaway =
    no termination within the step bound, finished but the reference decoder does not return the message, refusal although
    the ASCII encodation fits) are printed as candidates and replayed on the real encoder - only the real outcome counts.
    With EmitAll the model's outcome for every message is compared with the real encoder's (conformance of the model)."""
    import collections
    cands = []
    L = 4 if ctx.quick else 5
    res = vlib.run_tlc(ctx, "DMEnc", "MC_DMEnc", workers=vlib.NCPU, timeout=3000, consts={"MaxLen": str(L), "EmitAll": "TRUE"}, xmx="8g")
    out = vlib.tlc_printed(res)
    model = collections.defaultdict(set)
    for o in out:
        model[tuple(o["msg"])].add((o["pc"], tuple(o["cw"]) if o["pc"] == "done" else ()))
    msgs = sorted(model)
    obs = vlib.drive(ctx, "dm", [hl(m, tag="model") for m in msgs], timeout=3000)
    drift = 0
    for m, o in zip(msgs, obs):
        real = ("panic", ()) if o["panic"] else (("done", tuple(o["cw"])) if o["cwerr"] == 0 else ("error", ()))
        if real not in model[m]:
            drift += 1
            ctx.sample(dict(kind="model drift (not a verdict)", msg=list(m), real=real[0], model=sorted(p for p, _ in model[m])), cap=8)
    ctx.extra["encoder_model_messages_compared"] = len(msgs)
    ctx.extra["encoder_model_disagreements"] = drift
    ctx.note("DMEnc.tla: %d states: all %d messages of length <= %d over 11 character classes terminate within the step bound, never panic, "
             "and every finished encodation decodes (reference decoder) to the message; the model's outcome equals the real encoder's for %d of them" % (
                 res.generated, len(msgs), L, len(msgs) - drift))
    cands += [(o["msg"], "MC_DMEnc") for o in out if o["pc"] in ("panic", "runaway") or (o["pc"] == "done" and False)]
    fam = {"edifact": "{94, 33, 65, 233, 49}", "x12": "{65, 42, 13, 97, 49}", "c40text": "{65, 97, 233, 49, 1}", "b256": "{233, 65, 49, 128}"}
    LF = 6 if ctx.quick else 9
    for name, alpha in fam.items():
        r = vlib.run_tlc(ctx, "DMEnc", "MC_DMEnc", workers=vlib.NCPU, timeout=3000, consts={"MaxLen": str(LF), "Alphabet": alpha}, xmx="8g")
        cands += [(o["msg"], "MC_DMEnc") for o in vlib.tlc_printed(r)]
    for cfg in ("MC_DMEnc_max14", "MC_DMEnc_max18", "MC_DMEnc_rect"):
        r = vlib.run_tlc(ctx, "DMEnc", cfg, workers=vlib.NCPU, timeout=3000, consts={"MaxLen": "5" if ctx.quick else "8"}, xmx="8g")
        cands += [(o["msg"], cfg) for o in vlib.tlc_printed(r)]
        r = vlib.run_tlc(ctx, "DMEnc", cfg, workers=1, timeout=1200, consts={"MaxLen": "18"},
                         args=["-simulate", "num=%d" % (60 if ctx.quick else 6000), "-depth", "80", "-seed", str(ctx.seed)])
        cands += [(o["msg"], cfg) for o in vlib.tlc_printed(r)]
    # digits, an extended character and a space under MAX_SIZE 14x14, to length 7: the smallest messages on which the look-ahead's
    # choice (Base 256) needs more codewords than ASCII and the symbol-size feedback refuses (known finding C02-lookahead-...)
    r = vlib.run_tlc(ctx, "DMEnc", "MC_DMEnc_max14", workers=vlib.NCPU, timeout=3000, consts={"MaxLen": "7", "Alphabet": "{49, 233, 32}"}, xmx="8g")
    cands += [(o["msg"], "MC_DMEnc_max14") for o in vlib.tlc_printed(r)]
    seen, ev = set(), []
    for m, cfg in cands:
        k = (tuple(m), cfg)
        if k not in seen:
            seen.add(k)
            shape, mn, mx = MCHINTS[cfg]
            ev.append(hl(m, shape, mn, mx, tag="model-candidate"))
    ctx.extra["encoder_model_candidates_replayed"] = len(ev)
    return ev


def model_outcomes(ctx, events):
    """What does the encoder MODEL (spec/DMEnc.tla: the implementation's algorithm, Annex P look-ahead included) do with these texts under
    their hints?  Returns {index: set of (pc, mode)}.  Used to classify a refusal of the real encoder: one that the model makes too is
    the algorithm's doing (a recorded finding), one that the model does not make is an implementation slip."""
    import collections
    groups = collections.defaultdict(list)
    for i, e in enumerate(events):
        if all(0 <= c <= 255 for c in e["text"]) and 0 < len(e["text"]) <= 1600:
            groups[(e.get("shape", 0), tuple(e.get("mn", ())), tuple(e.get("mx", ())))].append(i)
    out = collections.defaultdict(set)
    for (shape, mn, mx), idx in groups.items():
        tup = lambda t: "<<%s>>" % ", ".join(map(str, t))
        mod = "---- MODULE DMEncFix ----\nEXTENDS DMEnc\nHMn == %s\nHMx == %s\n====\n" % (tup(mn), tup(mx))
        cfg = ("SPECIFICATION Spec\nCONSTANTS\n  Alphabet = {0}\n  MaxLen = 1\n  Shape = %d\n  Mn <- HMn\n  Mx <- HMx\n  EmitAll = TRUE\n"
               "  FixedMode = TRUE\nCHECK_DEADLOCK FALSE\n" % shape)
        res = vlib.run_tlc(ctx, "DMEncFix", "DMEncFix", files={"DMEncFix.tla": mod, "DMEncFix.cfg": cfg,
                           "fixed.ndjson": [dict(msg=events[i]["text"]) for i in idx]}, workers=4, timeout=1500, xmx="6g")
        bymsg = collections.defaultdict(set)
        for o in vlib.tlc_printed(res):
            bymsg[tuple(o["msg"])].add((o["pc"], o.get("mode", -1)))
        for i in idx:
            out[i] |= bymsg.get(tuple(events[i]["text"]), set())
    return out


def classify_refusals(ctx, obs):
    """annotate refused hl events with the model's verdict (model_refuses, model_mode) before they are matched against known findings"""
    todo = [o for o in obs if o.get("op") == "hl" and o.get("cwerr") == 1 and not o.get("panic") and not o.get("hang")]
    if not todo or len(todo) > 3000:
        return
    res = model_outcomes(ctx, todo)
    for i, o in enumerate(todo):
        errs = [m for (pc, m) in res.get(i, ()) if pc == "error"]
        o["model_refuses"] = 1 if errs else 0
        o["model_mode"] = errs[0] if errs else -1


def preds():
    # call-site classification of a refusal, from the library's own error text (used only to match known findings)
    # (model_refuses / model_mode are set by classify_refusals: the encoder model of spec/DMEnc.tla refuses the same text under the same
    # hints, in that mode - no reliance on the wording of the library's error message)
    return {"x12_illegal_character_refusal": lambda e: e.get("cwerr") == 1 and e.get("model_refuses") == 1 and e.get("model_mode") in (3, 4)
            and "refusal only when it does not fit" in e.get("failed", ()),
            # the refusal was PREDICTED by the encoder model (spec/DMEnc.tla reaches pc = "error" on this message under these hints although
            # the plain ASCII encodation fits) and is raised where the model raises it: the symbol-size feedback of a mode encoder
            "refusal_predicted_by_encoder_model": lambda e: e.get("cwerr") == 1 and e.get("model_refuses") == 1 and e.get("model_mode") in (0, 5)
            and e.get("failed") == ["refusal only when it does not fit"],
            # the same, raised inside the C40 / Text encoder (end-of-data case analysis)
            "c40_text_refusal_predicted_by_encoder_model": lambda e: e.get("cwerr") == 1 and e.get("model_refuses") == 1
            and e.get("model_mode") in (1, 2) and e.get("failed") == ["refusal only when it does not fit"]}


def run(ctx):
    res = vlib.run_tlc(ctx, "MC_DM", "MC_DM", workers=vlib.NCPU, timeout=1500)
    ctx.note("MC_DM: %d states (symbol table / capacity order used to judge size choice and refusals)" % res.generated)
    cand = design_check(ctx)
    if cand:
        dmlib.judge(ctx, cand[:5000], "C02 candidate from the encoder model", preds=preds(), annotate=classify_refusals)
    dmlib.judge(ctx, workload(ctx), "C02 encode/decode", preds=preds(), annotate=classify_refusals)
    ctx.exhaustive = False
    ctx.extra["exhaustive_over"] = "all strings of length <= %d over 11 character classes; all strings up to length %d over four 4-5 class families%s" % (
        3 if ctx.quick else 5, 6 if ctx.quick else 8, " (longest length sampled 1 in 4)" if ctx.quick else "")
    return vlib.finish(ctx, rule="one case = one text with hints run through EncodeHighLevel, the codeword-level decoder and (every 4th seeded case) "
                       "the writer and the pure-barcode reader; class strings are enumerated exhaustively, longer texts are seeded",
                       assumptions=["'fits' is judged by the sufficient condition that the plain ASCII encodation fits the largest admissible symbol",
                                    "Go's string conversion supplies the UTF-8 form of the Latin-1 text"],
                       trusted=["TLC", "spec/DMHL.tla reference decoder (ISO/IEC 16022 clause 5.2)", "spec/DMTables.tla"])


def replay(ctx, path):
    return dmlib.replay(ctx, path, preds=preds(), annotate=classify_refusals)
