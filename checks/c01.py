"""C01 - QR: what is written is what is read.  Every encode request is judged by Trace_QR: expected mode and version
from the standard's formulae, (for a rotating subset) the matrix module by module against the reference symbol built
from the text, the decoder's text / level on the produced matrix, and the pure-barcode reader on the rendered image."""
import random
import vlib, qrlib

MODES = ["num", "alnum", "byte", "kanji"]


def workload(ctx, g):
    rng = random.Random(ctx.seed * 31 + 5)
    caps = g["caps"]
    ev = []
    k = 0
    if ctx.quick:
        pairs = [(v, ec) for v in range(1, 11) for ec in range(1, 5)] + [(v, ec) for v in (26, 27, 40) for ec in (1, 4)]
    else:
        pairs = [(v, ec) for v in range(1, 41) for ec in range(1, 5)]
    for v, ec in pairs:
        for mi, mode in enumerate(MODES):
            cap = caps[v - 1][ec - 1][mi]
            # cap + 1 does not fit (v, ec) but fits the next version: written without a version hint it must still round-trip
            for n in (cap, cap - 1) + ((cap + 1,) if v < 40 and (v in (9, 10, 26, 27) or (v + ec + mi) % 3 == 0) else ()):
                if n < 1:
                    continue
                k += 1
                text, cs = qrlib.text_of(mode, n, rng)
                chk = 1 if (k + ctx.seed) % (6 if v <= 10 else 40) == 0 else 0
                img = ()
                if (k + ctx.seed) % 5 == 0 and (v <= 12 or not ctx.quick):
                    d = 17 + 4 * v
                    margin = rng.choice([4, 4, 5, 11])
                    q = d + 2 * margin
                    img = rng.choice([(0, 0, margin), (q, q, margin), (2 * q + 1, 2 * q + 1, margin), (3 * q, 3 * q + 5, margin),
                                      (q + 3, 2 * q, margin), (7 * q if v < 6 else q + 1, 7 * q if v < 6 else q + 1, margin), (1, 1, -1)])
                ev.append(qrlib.enc(text, ec, cs=cs, dec=1, chk=chk, img=img, tag="boundary"))
    # every (version, level) pair is written and decoded at least once in every tier (a decoder table slip of one pair must show)
    if ctx.quick:
        for v in range(1, 41):
            for ec in range(1, 5):
                mi = (v + ec + ctx.seed) % 3
                cap = caps[v - 1][ec - 1][mi]
                text, cs = qrlib.text_of(MODES[mi], max(1, cap - (v % 3)), rng)
                ev.append(qrlib.enc(text, ec, cs=cs, dec=1, chk=0, tag="allpairs"))
    # forced masks and forced (larger) versions
    for m in range(8):
        for v in ([1, 5, 10, 27] if ctx.quick else range(1, 41, 3)):
            mode = MODES[(m + v) % 4]
            ec = 1 + (m + v) % 4
            text, cs = qrlib.text_of(mode, max(1, caps[v - 1][ec - 1][MODES.index(mode)] // 2), rng)
            ev.append(qrlib.enc(text, ec, vh=v + (m % 2) if v < 40 else v, mh=m, cs=cs, dec=1, chk=1 if v <= 10 else 0,
                                img=(0, 0, 4) if m % 3 == 0 else (), tag="forced"))
    # very large renderings: 64 pixels per module (filled regions wider than a 32-bit word, edges on word boundaries)
    for (t, v) in (("hello world", 1), ("HELLO WORLD 0123456789 HELLO", 2)):
        d = 17 + 4 * v + 8
        ev.append(qrlib.enc(list(t.encode()), 1, dec=1, chk=0, img=(64 * d, 64 * d, 4), tag="large image"))
        ev.append(qrlib.enc(list(t.encode()), 3, dec=0, chk=0, img=(33 * d + 5, 34 * d, 4), tag="large image"))
    # every byte value in byte mode (ISO-8859-1 designated), in four chunks of 64 and one symbol with all 256
    allb = "".join(chr(c) for c in range(256))
    for part in [allb[i:i + 64] for i in range(0, 256, 64)] + [allb]:
        ev.append(qrlib.enc(list(part.encode("utf-8")), 2, cs="ISO-8859-1", dec=1, chk=1, img=(0, 0, 4), tag="allbytes"))
    # character-set hints (C15 owns the complete registry; these tie the hint to mode / ECI header / matrix)
    samples = [("UTF-8", "Grüße, 世界! €"), ("ISO-8859-1", "crème brûlée ÿ"), ("Shift_JIS", "日本語テキスト"), ("Shift_JIS", "abc日本語"),
               ("Shift_JIS", "ｱｲｳ"), ("ISO-8859-15", "100 € prix"), ("windows-1252", "“quoted” – dash"), ("UTF-16BE", "wide 世界"),
               ("EUC-KR", "한국어 텍스트"), ("GB18030", "中文文本"), ("Big5", "繁體中文"), ("UTF-8", "12345"), ("ISO-8859-1", "ABC-123"),
               ("", "plain ascii text"), ("", "ÀÉÎÕÜ mixed ßøå 12"), ("", "こんにちは世界"), ("", "\U0001f600 emoji \U0001f680"), ("", "\U00020bb7"), ("", "Yoshinoya \U00020bb7 2024"), ("", "\U00020820\U00020bb7"), ("", "a"), ("", "7"), ("", "Z"),
               # characters above U+00FF whose LOW byte is a digit / a capital / one of the nine alphanumeric-mode signs: byte mode all the same
               ("", "беда" * 50), ("", "абвгдежзий"), ("", "стуфхцчшщъ"), ("", "中"), ("", "ああああ"), ("", "жиг"), ("", "ĀāĂ0"), ("", "Ａ１"),
               # a byte-order mark or the replacement character as CONTENT
               ("", "\ufeffhello"), ("", "\ufeff日本"), ("", "a\ufffdb"), ("", "\ufffd"), ("", "café \ufffd 日本")]
    for i, (cs, t) in enumerate(samples):
        for ec in ((1, 3) if ctx.quick else (1, 2, 3, 4)):
            ev.append(qrlib.enc(list(t.encode("utf-8")), ec, cs=cs, dec=1, chk=1, img=(0, 0, 4) if i % 2 == 0 else (90, 70, 6), tag="charset"))
    # seeded random texts of mixed content
    for _ in range(60 if ctx.quick else 2000):
        mode = rng.choice(MODES)
        n = rng.randint(1, rng.choice([8, 40, 200, 700]))
        if mode == "kanji":
            n = max(1, n // 3)
        text, cs = qrlib.text_of(mode, n, rng)
        ev.append(qrlib.enc(text, rng.randint(1, 4), cs=cs, dec=1, chk=1 if n < 60 else 0,
                            img=(rng.randint(0, 300), rng.randint(0, 300), rng.choice([4, 4, 7])) if rng.random() < 0.3 else (), tag="random"))
    # not fitting: one more than 40-level capacity must be refused
    for ec in range(1, 5):
        for mi, mode in enumerate(MODES):
            text, cs = qrlib.text_of(mode, caps[39][ec - 1][mi] + 1, rng)
            ev.append(qrlib.enc(text, ec, cs=cs, dec=0, chk=0, tag="toolong"))
    return ev


def run(ctx):
    res = vlib.run_tlc(ctx, "MC_QR", "MC_QR" if ctx.quick else "MC_QR_thorough", workers=vlib.NCPU, timeout=3000)
    ctx.note("MC_QR: %d states: the reference construction round-trips through the reference read-out and parser in all four "
             "modes / with ECI and FNC1 headers at capacity, capacity-1 and short lengths (small versions), table laws for all versions" % res.generated)
    g = qrlib.gen_caps(ctx)
    qrlib.judge(ctx, workload(ctx, g), "C01 write/read")
    ctx.exhaustive = False
    return vlib.finish(ctx, rule="one case = one encode request (text length, mode, level, version/mask/charset hints, image size) with "
                       "its decode results; boundary lengths capacity and capacity-1 for every (version, level, mode) "
                       "(quick: versions 1-10, 26, 27, 40), all 256 byte values, charset hints, seeded random texts",
                       assumptions=["golang.org/x/text supplies the bytes of a text in the hinted character set (input to the spec)",
                                    "decoding of un-designated byte segments relies on the charset guess (C15)"],
                       trusted=["TLC", "spec/QRTables.tla + QRSymbol.tla + QRStream.tla"])


replay = qrlib.replay
