"""C20 - 1-D run-length primitives obey their contract at every scale.
spec/RunLength.tla (definitions), spec/MC_RunLength (pixel-step automaton vs definition on all small rows; score laws
over all small counter vectors; both print their cases), spec/Trace_RunLength (judges every recorded call of the real
oned.RecordPattern / RecordPatternInReverse / PatternMatchVariance)."""
import json, random
import vlib

OWN = {"ean": (7, 10), "ean4": (7, 10), "c128": (7, 10), "rss": (45, 100), "itf": (1, 2), "guards": (7, 10),
       "c93": (7, 10), "c39": (1, 2)}
ALLOW = [(7, 10), (45, 100), (1, 2), (1, 4), (2, 10), (0, 1), (3, 2), (48, 100), (1, 1), (333, 1000)]


def chunks(bits):
    out = [0] * ((len(bits) + 15) // 16)
    for i, b in enumerate(bits):
        if b:
            out[i // 16] |= 1 << (i % 16)
    return out


_MK = [0]


def rec_event(op, bits, start, n, x=0, xerr=0, xc=()):
    # mk: how the driver builds the row - 0 NewBitArray + Set, 1 AppendBit from an empty array, 2 AppendBits in 5-bit pieces
    # (appended rows carry spare capacity words behind their last bit, as the rows the encoders and binarisers build do)
    _MK[0] += 1
    return dict(op=op, row=chunks(bits), len=len(bits), start=start, n=n, x=x, xerr=xerr, xc=list(xc), mk=_MK[0] % 3)


def pmv_event(c, p, vn, vd, x=0, xinf=0, xnum=0):
    return dict(op="pmv", c=list(c), p=list(p), vn=vn, vd=vd, x=x, xinf=xinf, xnum=xnum)


# ------------------------------------------------------------------ TLC: design checks + generated cases
def tlc_rec(ctx):
    maxlen, maxn = (8, 4) if ctx.quick else (11, 5)
    consts = dict(MaxLen=maxlen, MaxN=maxn, Record="TRUE")
    res = vlib.run_tlc(ctx, "MC_RunLength", "MC_RunLengthRec", workers=vlib.NCPU, timeout=1500, consts=consts, xmx="6g")
    cases = vlib.tlc_printed(res)
    if not cases:
        raise vlib.Infra("MC_RunLengthRec printed no cases:\n" + res.out[-2000:])
    ctx.note("MC_RunLengthRec: every row of length <= %d x every start x 1..%d counters, forward and reverse: %d states; "
             "automaton = definition = linear formulation; %d cases generated" % (maxlen, maxn, res.generated, len(cases)))
    return [rec_event(c["op"], c["bits"], c["start"], c["n"], 1, c["xerr"], c["xc"]) for c in cases]


def tlc_score(ctx):
    cfg = "MC_RunLengthScore" if ctx.quick else "MC_RunLengthScoreT"     # thorough: all six allowances, larger bounds, k <= 5
    res = vlib.run_tlc(ctx, "MC_RunLength", cfg, workers=vlib.NCPU, timeout=1500, xmx="6g")
    blocks = vlib.tlc_printed(res)
    fam = vlib.tlc_printed(res, tag="FAM")
    if not blocks or len(fam) != 1:
        raise vlib.Infra("MC_RunLengthScore printed no cases:\n" + res.out[-2000:])
    events = []
    for b in blocks:
        n, m = len(b["p"]), b["m"]
        if len(b["exp"]) != (m + 1) ** n:
            raise vlib.Infra("block of %s has %d entries" % (b["p"], len(b["exp"])))
        for j, (inf, amb, num) in enumerate(b["exp"]):
            c = [(j // (m + 1) ** (n - 1 - i)) % (m + 1) for i in range(n)]
            events.append(pmv_event(c, b["p"], b["vn"], b["vd"], 1, inf, num))
    ctx.note("MC_RunLengthScore: %d (pattern, allowance) pairs x all counter vectors (3/4/5 elements, entries <= %s): "
             "score laws hold; %d cases generated" % (len(blocks), sorted({b["m"] for b in blocks}), len(events)))
    return events, fam[0]


# ------------------------------------------------------------------ seeded inputs
def seeded_rows(ctx, rng):
    """rows of every length 0..300 in several styles; starts at every kind of position; counter lengths 1..10"""
    ev = []
    reps = 2 if ctx.quick else 12
    for n in range(0, 301):
        for rep in range(reps):
            style = rng.choice(["rand", "bars", "bars", "wide", "alt", "const", "edge"])
            if style == "rand":
                bits = [rng.random() < 0.5 for _ in range(n)]
            elif style in ("bars", "wide"):
                bits, col = [], rng.random() < 0.5
                while len(bits) < n:
                    bits += [col] * rng.randint(1, 4 if style == "bars" else 40)
                    col = not col
                bits = bits[:n]
            elif style == "alt":
                bits = [(i % 2 == 0) for i in range(n)]
            elif style == "const":
                bits = [rng.random() < 0.5] * n
            else:
                bits = [False] * n
                for i in (0, n - 1, 31, 32, 63, 64):
                    if 0 <= i < n and rng.random() < 0.7:
                        bits[i] = True
            starts = {0, n, n + 1, max(n - 1, 0), n // 2, 31, 32, 33}
            starts |= {rng.randint(0, n) for _ in range(4 if ctx.quick else 8)}
            for s in sorted(starts):
                for k in sorted({rng.randint(1, 10), rng.randint(1, 4), 1, 10} if not ctx.quick else {rng.randint(1, 10), rng.randint(1, 3)}):
                    if s <= n + 1:
                        ev.append(rec_event("fwd", bits, s, k))
                    if s < n:
                        ev.append(rec_event("rev", bits, s, k))
    return ev


def seeded_vectors(ctx, rng, fam):
    """counter vectors (entries 0..40) for the patterns of every family: multiples, noisy multiples, scaled copies,
    under-resolved, knife-edge deviations and uniform random ones"""
    ev = []
    per = 1 if ctx.quick else 6
    for name, pats in sorted(fam.items()):
        pats = sorted(pats)
        if ctx.quick and len(pats) > 60:
            pats = rng.sample(pats, 60)
        for p in pats:
            n, P = len(p), sum(p)
            allow = [OWN[name]] + [rng.choice(ALLOW) for _ in range(per)]
            vecs = []
            kmax = max(1, 40 // max(p))
            for _ in range(per):
                k = rng.randint(1, kmax)
                vecs.append([k * x for x in p])                                              # exact multiple
                noisy = [max(0, min(40, k * x + rng.choice([-2, -1, -1, 0, 0, 0, 1, 1, 2]))) for x in p]
                vecs.append(noisy)                                                           # realistic noise
                j = rng.randint(2, 5)
                if max(noisy) * j <= 40:
                    vecs.append([j * x for x in noisy])                                      # the same run set, scaled
                vecs.append([rng.randint(0, 40) for _ in p])                                 # anything
                small = [rng.randint(0, 2) for _ in p]                                       # around total = modules
                vecs.append(small)
                under = list(p)
                under[rng.randrange(n)] -= 1
                vecs.append(under)                                                           # one pixel short of 1 px/module
                # knife edge: one run k*x + d with |d*P - ...| near vn/vd * T
                vn, vd = allow[0]
                i = rng.randrange(n)
                d = (vn * k + vd - 1) // vd
                for dd in (d - 1, d, d + 1):
                    e = [k * x for x in p]
                    e[i] = max(0, min(40, e[i] + rng.choice([-1, 1]) * dd))
                    vecs.append(e)
            for c in vecs:
                for vn, vd in allow:
                    ev.append(pmv_event(c, p, vn, vd))
    return ev


# ------------------------------------------------------------------ judging
def judge(ctx, inputs, label):
    if not inputs:
        return
    obs = vlib.drive(ctx, "c20", inputs)
    bad = vlib.validate(ctx, "Trace_RunLength", obs, stateless=True, xmx="2g")
    ctx.traces += 1
    for o in obs:
        if o["op"] == "pmv":
            ctx.count_case(("pmv", o["c"], o["p"], o["vn"], o["vd"]))
        else:
            ctx.count_case((o["op"], o["row"], o["len"], o["start"], o["n"]))
    for gi, ent in bad:
        ev = dict(obs[gi])
        ev["why"] = ent[1]
        if ent[1] in ("shape", "generated"):
            raise vlib.Infra("%s: ill-formed event or inconsistent generated expectation (%s): %s" % (label, ent[1], ev))
        if ev["op"] == "pmv":
            msg = "%s: PatternMatchVariance(c=%s, p=%s, %d/%d) -> inf=%d nan=%d k=%d/den=%d res=%d panic=%d: %s" % (
                label, ev["c"], ev["p"], ev["vn"], ev["vd"], ev["inf"], ev["nan"], ev["k"], ev["den"], ev["res"],
                ev["panic"], ent[1])
        else:
            msg = "%s: RecordPattern%s(row=%s len=%d, start=%d, n=%d) -> err=%d c=%s panic=%d: %s" % (
                label, "InReverse" if ev["op"] == "rev" else "", ev["row"], ev["len"], ev["start"], ev["n"], ev["err"],
                ev["c"], ev["panic"], ent[1])
        vlib.reject(ctx, ev, msg, replay_events=[inputs[gi]],
                    preds={"under_resolved": lambda e: e["op"] == "pmv" and sum(e["c"]) < sum(e["p"]) and e["inf"] == 0})
    mid = obs[len(obs) // 3]
    ctx.sample(dict(kind=label, event={k: v for k, v in mid.items() if k != "msg"}))


def run(ctx):
    rng = random.Random(ctx.seed * 104729 + (1 if ctx.quick else 2))
    rec_gen = tlc_rec(ctx)
    pmv_gen, fam = tlc_score(ctx)
    judge(ctx, rec_gen, "TLC-generated recording case")
    judge(ctx, pmv_gen, "TLC-generated score case")
    judge(ctx, seeded_rows(ctx, rng), "seeded row")
    judge(ctx, seeded_vectors(ctx, rng, fam), "seeded counter vector")
    ctx.exhaustive = False
    ctx.extra["exhaustive_parts"] = ("all rows of length <= %d x all starts x 1..%d counters (forward, reverse); all counter "
                                     "vectors with entries <= bound for every 3/4/5-element pattern x 2+ allowances"
                                     % ((8, 4) if ctx.quick else (11, 5)))
    return vlib.finish(ctx, rule="one case = one call (function, row content, start, counter count) or (counters, pattern, "
                       "allowance); small scopes are enumerated by TLC, rows of every length 0..300 and vectors with "
                       "entries 0..40 for every pattern family are seeded",
                       assumptions=["start >= 0 (and start < row length for the reverse variant); counters and pattern of "
                                    "equal length >= 1; reverse recording requires the n runs to be delimited by a colour "
                                    "change on the left (ZXing semantics)",
                                    "a deviation exactly equal to the allowance may be scored either way (binary floating point)"],
                       trusted=["TLC", "spec/RunLength.tla", "harness/c20 projection of the float64 score to round(r*den) + residual"])


def replay(ctx, path):
    r = json.load(open(path))
    judge(ctx, r["inputs"], "replay")
    return vlib.finish(ctx, rule="replay of recorded calls")
