"""C12 - encoding is total: any contents, format, size and hints give a symbol or an error.

spec/EncTotality.tla   the contract of Writer.Encode as a call/return automaton: T (no panic, no hang, exactly one of
                       matrix / error), R (certain refusals), A (certain acceptance), D (the symbol is one of the
                       symbology able to hold the contents; the matrix is not smaller than it nor - QR, 1-D - than
                       max(requested, 1))
spec/MC_EncTotality    TLC model-checks the contract (never contradictory, satisfiable, excludes panic / hang / neither
                       / both and too-small matrices, met by the reference rendering of Render.tla) and enumerates the
                       configuration space (11 writers x 17 formats x size classes x hint values in and out of range)
spec/Trace_EncTotality TLC judges every recorded call of the real writers
harness/c12            dumb driver: Encode under recover() in a worker process with a watchdog, plus the bare symbol
"""
import json, random
import vlib

WRITERS = ["QR", "DM", "EAN13", "EAN8", "UPCA", "UPCE", "C39", "C93", "C128", "ITF", "CBAR"]
OWNFMT = {"QR": 11, "DM": 5, "EAN13": 7, "EAN8": 6, "UPCA": 14, "UPCE": 15, "C39": 2, "C93": 3, "C128": 4, "ITF": 8, "CBAR": 1}
CLS = {"QR": "qr", "DM": "dm"}
FNC1 = list("ñ".encode())


def B(x):
    return list(x.encode("utf-8") if isinstance(x, str) else x)


# ---------------------------------------------------------------- contents
def common_contents():
    return [("empty", [], 0), ("one digit", B("1"), 1), ("one letter", B("A"), 1), ("4000 letters", B("A"), 4000),
            ("4000 digits", B("1234567890"), 4000), ("invalid utf-8", [0xff, 0xfe, 0x80], 3), ("truncated utf-8", [0x41, 0xc3], 2),
            ("japanese", B("あいう"), 9), ("cyrillic", B("Привет"), 12),
            ("latin-1 text", B("café"), 5),
            # decimal digits / letters of other scripts: a Unicode-aware predicate takes them for the symbology's own alphabet
            ("arabic-indic digits", B("١٢٣٤"), 8), ("fullwidth digits", B("１２３４"), 12), ("ascii + devanagari digits", B("12३४"), 8),
            ("two arabic-indic digits", B("١٢"), 4), ("fullwidth letters", B("ＡＢＣ"), 9), ("superscript digits", B("²³"), 4), ("nul", [0], 1), ("control characters", [1, 31, 127], 3), ("all bytes", list(range(256)), 256)]


def own_contents(wr):
    t = {
        "QR": [("alnum", B("HELLO WORLD"), 11), ("byte", B("hello, world"), 12), ("digits", B("0123456789"), 10),
               ("2953 bytes", B("a"), 2953), ("2954 bytes", B("a"), 2954), ("7089 digits", B("7"), 7089), ("7090 digits", B("7"), 7090),
               ("4296 alnum", B("A"), 4296), ("kanji", B("点茗"), 6)],
        "DM": [("upper", B("HELLO"), 5), ("digits", B("123456"), 6), ("lower", B("hello world"), 11), ("3116 digits", B("12"), 3116),
               ("3117 digits", B("12"), 3117), ("1556 letters", B("A"), 1556), ("2400 letters", B("A"), 2400),
               ("macro 05", B("[)>\x1e05\x1d") + B("ABC") + B("\x1e\x04"), 12), ("x12", B("AB*CD>EF\rGH*12>"), 16),
               ("edifact", B(".A.C1.3.X.X2.."), 14), ("c40 + lower at end", B("AIMAIMAIMAIMAIMAIa"), 18), ("latin-1 run", B("éèêëàâ"), 12),
               ("98 digits", B("12"), 98), ("100 digits", B("12"), 100)],
        "EAN13": [("12 digits", B("590123412345"), 12), ("13 digits", B("5901234123457"), 13), ("wrong check", B("5901234123458"), 13),
                  ("11 digits", B("59012341234"), 11), ("14 digits", B("59012341234571"), 14), ("letter", B("59012341234A"), 12)],
        "EAN8": [("7 digits", B("1234567"), 7), ("8 digits", B("12345670"), 8), ("wrong check", B("12345671"), 8), ("6 digits", B("123456"), 6),
                 ("letter", B("123456A"), 7)],
        "UPCA": [("11 digits", B("01234567890"), 11), ("12 digits", B("012345678905"), 12), ("wrong check", B("012345678906"), 12),
                 ("10 digits", B("0123456789"), 10), ("letter", B("0123456789A"), 11)],
        "UPCE": [("7 digits", B("0123456"), 7), ("8 digits", B("01234565"), 8), ("wrong check", B("01234566"), 8), ("system 1", B("1123450"), 7),
                 ("system 2", B("2123456"), 7), ("6 digits", B("012345"), 6), ("letter", B("012345A"), 7)],
        "C39": [("plain", B("ABC-123"), 7), ("lower", B("abc"), 3), ("punctuation", B("A$%/+*,@`"), 9), ("80 plain", B("A"), 80),
                ("81 plain", B("A"), 81), ("40 lower", B("a"), 40), ("41 lower", B("a"), 41), ("8-bit", [65, 0xe9], 2)],
        "C93": [("plain", B("ABC-123"), 7), ("lower", B("abc"), 3), ("punctuation", B("A$%/+*,@`:"), 10), ("80 plain", B("A"), 80),
                ("81 plain", B("A"), 81), ("40 lower", B("a"), 40), ("41 lower", B("a"), 41), ("8-bit", [65, 0xe9], 2)],
        "C128": [("mixed", B("ABC12"), 5), ("digits", B("123456"), 6), ("odd digits", B("12345"), 5), ("lower + control", B("a\x01b"), 3),
                 ("80 chars", B("Ab"), 80), ("81 chars", B("Ab"), 81), ("fnc1 + digits", FNC1 + B("1234"), 6), ("digit + fnc1", B("1") + FNC1, 3),
                 ("digits fnc1 digits", B("12") + FNC1 + B("34"), 6), ("fnc2..4", B("òóôA"), 7), ("upper + space", B("AB CD"), 5),
                 ("8-bit", [65, 0xe9], 2), ("80 digits", B("12"), 80), ("160 bytes of fnc1", FNC1, 160), ("162 bytes of fnc1", FNC1, 162)],
        "ITF": [("4 digits", B("1234"), 4), ("3 digits", B("123"), 3), ("80 digits", B("12"), 80), ("82 digits", B("12"), 82), ("letter", B("12A4"), 4)],
        "CBAR": [("digits", B("1234"), 4), ("own guards", B("A123B"), 5), ("alt guards", B("T12E"), 4), ("mismatched guards", B("A123"), 4),
                 ("wide characters", B("12:34/5.6+7"), 11), ("dash dollar", B("1-2$3"), 5), ("letter inside", B("12Z34"), 5), ("lower guards", B("a12b"), 4),
                 ("guards only", B("AB"), 2), ("500 digits", B("12"), 500)],
    }
    return t[wr]


def random_contents(wr, rng, k):
    out = []
    for _ in range(k):
        n = rng.choice([1, 2, 3, 5, 8, 13, 21, 40, 60])
        mode = rng.choice(["bytes", "ascii", "utf8", "own"])
        if mode == "bytes":
            c = [rng.randrange(256) for _ in range(n)]
        elif mode == "ascii":
            c = [rng.randrange(128) for _ in range(n)]
        elif mode == "utf8":
            c = B("".join(chr(rng.choice([rng.randrange(32, 127), rng.randrange(0xa0, 0x100), rng.randrange(0x400, 0x450), rng.randrange(0x3041, 0x3090)]))
                          for _ in range(n)))
        else:
            alpha = {"QR": "0123456789ABCXYZ $%*+-./:", "DM": "AB12ab >*\r!\x01", "C39": "ABC123-. $/+%ab", "C93": "ABC123-. $/+%ab",
                     "C128": "AB12ab \x01" + "ñ", "CBAR": "0123456789-$:/.+ABCD"}.get(wr, "0123456789")
            c = B("".join(rng.choice(alpha) for _ in range(n)))
        out.append(("random " + mode, c, len(c)))
    return out


# ---------------------------------------------------------------- inputs
def hint_fix(h):
    h = dict(h)
    if h["t"] == 1 and not h["s"]:
        h["s"] = B(h["sn"])
    return h


def mk(cfg, content, tag=""):
    name, cp, cn = content
    return dict(op="enc", wr=cfg["wr"], fmt=cfg["fmt"], cp=cp, cn=cn, wk=cfg["wk"], hk=cfg["hk"], w0=cfg["w0"], h0=cfg["h0"],
                hints=[hint_fix(h) for h in cfg["hints"]], tag=tag or name)


def H(k, t, i=0, sn="", a=0, b=0):
    return dict(k=k, t=t, i=i, sn=sn, s=B(sn), a=a, b=b)


def plain(wr, hints=(), wk=0, w0=0, hk=0, h0=0, fmt=None):
    return dict(wr=wr, fmt=OWNFMT[wr] if fmt is None else fmt, wk=wk, w0=w0, hk=hk, h0=h0, hints=list(hints))


DM_SIZES = [(10, 10), (12, 12), (14, 14), (16, 16), (18, 18), (20, 20), (22, 22), (24, 24), (26, 26), (32, 32), (36, 36), (40, 40), (44, 44), (48, 48),
            (18, 8), (32, 8), (26, 12), (36, 12), (36, 16), (48, 16)]
DM_DIMS = [8, 10, 12, 14, 16, 18, 20, 22, 24, 26, 32, 36, 40, 44, 48]


def dm_family(rng, n):
    """Data Matrix mode machine under size constraints: short strings over character classes that make the look-ahead
    switch modes (C40 / Text / X12 / EDIFACT / Base 256 natives, one or two strangers near the end), with shape, minimum
    and maximum size hints taken from the small symbol sizes."""
    alpha = ['1', 'A', 'B', 'a', ' ', '*', '\r', '>', '^', '!', '\x01', 'é', '2']
    for _ in range(n):
        r = rng.random()
        tail = r >= 0.7           # C40 / Text natives ending in an extended character, under a small maximum size
        if r < 0.4:
            ln = 1 + rng.randrange(18)
            k = 2 + rng.randrange(len(alpha) - 1)
            rng.shuffle(alpha)
            s = "".join(alpha[rng.randrange(k)] for _ in range(ln))
        else:
            base = rng.choice(["ABCDEFGHIJ0123456789 ", "abcdefghij0123456789 ", "AB12>*\r ", "AB12.,-()"][:2 if tail else 4])
            ln = (6 if tail else 3) + rng.randrange(16)
            s = [rng.choice(base) for _ in range(ln)]
            if tail:
                s[ln - 1] = rng.choice("éÉ\xa0ÿ")
                if rng.random() < 0.3:
                    s[max(0, ln - 2 - rng.randrange(3))] = rng.choice("abcxyzABC!^ ")
            else:
                for _ in range(rng.choice([1, 1, 2])):
                    s[max(0, ln - 1 - rng.randrange(4))] = rng.choice("abcxyzéÉ !^\x01~ABC")
            s = "".join(s)
        hints = []
        sh = rng.randrange(4)
        if sh:
            hints.append(H("DATA_MATRIX_SHAPE", 4, i=sh % 3))
        if tail:
            a, b = rng.choice(DM_SIZES[:6] + [(18, 8), (32, 8), (26, 12), (10, 44), (36, 12)])
            hints.append(H("MAX_SIZE", 5, a=a, b=b))
        elif rng.random() < 0.75:
            a, b = rng.choice(DM_SIZES) if rng.random() < 0.6 else (rng.choice(DM_DIMS), rng.choice(DM_DIMS))
            hints.append(H("MAX_SIZE", 5, a=a, b=b))
        if rng.random() < 0.3:
            a, b = rng.choice(DM_SIZES) if rng.random() < 0.6 else (rng.choice(DM_DIMS), rng.choice(DM_DIMS))
            hints.append(H("MIN_SIZE", 5, a=a, b=b))
        c = B(s)
        yield mk(plain("DM", hints), ("dm mode machine", c, len(c)))


def c128_family(rng, n):
    for _ in range(n):
        ln = 1 + rng.randrange(10)
        alpha = rng.choice(["0123456789", "0123456789ñ", "AB12ñ", "ab\x01A1 ", "0123456789A", "ñòóô" + "12"])
        c = B("".join(rng.choice(alpha) for _ in range(ln)))
        hints = [H("FORCE_CODE_SET", 1, sn=rng.choice(["A", "B", "C", "C", "D"]))] if rng.random() < 0.8 else []
        if rng.random() < 0.2:
            hints.append(H("MARGIN", 0, i=rng.choice([0, 3, 25])))
        yield mk(plain("C128", hints), ("code 128 code sets", c, len(c)))


def margin_family(rng, quick):
    """margins around minus the symbol width (where the module size divides by zero) for every 1-D writer and QR"""
    out = []
    for wr in WRITERS:
        if wr == "DM":
            continue
        cs = own_contents(wr)[:3]
        for c in cs:
            for d in ([-1, 0, 1] if quick else [-3, -2, -1, 0, 1, 2]):
                for (wk, w0) in ((0, 0), (0, 40), (2, 3)):
                    out.append(mk(plain(wr, [dict(k="MARGIN", t=6, i=d, sn="", s=[], a=-1, b=0)], wk=wk, w0=w0, hk=0, h0=rng.choice([0, 7])), c))
            for m in ([-2, 0, 2] if quick else [-40, -12, -11, -10, -9, -2, -1, 0, 1, 2, 7, 50, 300]):
                out.append(mk(plain(wr, [H("MARGIN", 0, i=m)], wk=1, w0=rng.choice([-1, 0, 1, 30]), hk=1, h0=rng.choice([-1, 0, 5])), c))
    return out


def gen_configs(ctx):
    res = vlib.run_tlc(ctx, "MC_EncTotality", "Gen_EncTotality", workers=4, timeout=600)
    cfgs = vlib.tlc_printed(res)
    if len(cfgs) < 10000:
        raise vlib.Infra("Gen_EncTotality produced %d configurations:\n%s" % (len(cfgs), res.out[-2000:]))
    cfgs.sort(key=lambda c: json.dumps(c, sort_keys=True))        # TLC's workers print in any order
    return cfgs


def input_stream(ctx, cfgs):
    rng = random.Random(ctx.seed * 104729 + (1 if ctx.quick else 2))
    allc = {wr: common_contents() + own_contents(wr) for wr in WRITERS}
    # every writer x every content class, plain call and a generous size
    for wr in WRITERS:
        for c in allc[wr] + random_contents(wr, rng, 6 if ctx.quick else 80):
            yield mk(plain(wr), c)
            yield mk(plain(wr, wk=2, w0=3, hk=2, h0=3), c)
    # every single byte value alone and after an alphanumeric prefix (content classification tables are indexed by the byte)
    for wr in WRITERS:
        for b in range(256):
            yield mk(plain(wr), ("byte %d" % b, [b], 1))
            yield mk(plain(wr), ("AB1 + byte %d" % b, [65, 66, 49, b], 4))
    for x in margin_family(rng, ctx.quick):
        yield x
    # the TLC-generated configuration space x content classes
    for cfg in cfgs:
        wr = cfg["wr"]
        own = own_contents(wr)
        g1 = not cfg["hints"]
        if ctx.quick:
            if g1:
                pick = [own[0]] if rng.random() < 0.55 else []
                if rng.random() < 0.04:
                    pick.append(rng.choice(allc[wr]))
            elif len(cfg["hints"]) == 1:
                pick = [own[0], rng.choice(allc[wr])]
            else:
                pick = [rng.choice(own[:3])] if rng.random() < 0.7 else [rng.choice(allc[wr])]
        else:
            if g1:
                pick = [own[0], own[1]] + [rng.choice(allc[wr]) for _ in range(4)]
            elif len(cfg["hints"]) == 1:
                pick = list(allc[wr]) + random_contents(wr, rng, 2)
            else:
                pick = own[:3] + [rng.choice(allc[wr]) for _ in range(4)]
        if wr == "QR" and any(h["k"] == "CHARACTER_SET" for h in cfg["hints"]):
            pick = pick + [own[1], allc[wr][7]]        # the named character set is only used by byte mode: "hello, world", japanese
        for c in pick:
            yield mk(cfg, c)
    for x in c128_family(rng, 1500 if ctx.quick else 60000):
        yield x
    for x in dm_family(rng, 6000 if ctx.quick else 1200000):
        yield x


def batches(it, n):
    cur = []
    for x in it:
        cur.append(x)
        if len(cur) >= n:
            yield cur
            cur = []
    if cur:
        yield cur


# ---------------------------------------------------------------- judging
KEEP = ("wr", "fmt", "cp", "cn", "w", "h", "hints", "sok", "sw", "sh", "mat", "err", "panic", "hang", "ow", "oh")
CLAUSE = {1: "T: panic, hang, or not exactly one of matrix / error", 2: "R: a call the contract refuses returned no error",
          3: "A: a call the contract accepts was refused", 4: "D: the symbol is not a symbol of the symbology able to hold the contents",
          5: "D: the matrix is smaller than the symbol or than the requested size", 9: "ill-formed observation"}


def margin_of(ev):
    for h in ev["hints"]:
        if h["k"] == "MARGIN":
            if h["t"] == 0:
                return h["i"]
            if h["t"] == 1:
                try:
                    return int(bytes(h["s"]).decode("latin-1"))
                except ValueError:
                    return None
    return None


def hint(ev, k):
    for h in ev["hints"]:
        if h["k"] == k:
            return h
    return None


PREDS = {
    "negative_margin": lambda e: e["wr"] != "DM" and margin_of(e) is not None and margin_of(e) < 0,
    "margin_cancels_symbol_width": lambda e: e["wr"] not in ("DM", "QR") and margin_of(e) is not None and e.get("sw", 0) > 0 and margin_of(e) == -e["sw"],
    "ec_level_enum_out_of_range": lambda e: e["wr"] == "QR" and hint(e, "ERROR_CORRECTION") is not None and hint(e, "ERROR_CORRECTION")["t"] == 3
    and hint(e, "ERROR_CORRECTION")["i"] not in (0, 1, 2, 3),
    "code_set_c_with_fnc1": lambda e: e["wr"] == "C128" and hint(e, "FORCE_CODE_SET") is not None and hint(e, "FORCE_CODE_SET")["sn"] == "C"
    and 0xc3 in e["cp"][:max(e["cn"], 0)] and "index out of range" in e.get("msg", ""),
    "dm_size_hints_slice_bounds": lambda e: e["wr"] == "DM" and (hint(e, "MIN_SIZE") is not None or hint(e, "MAX_SIZE") is not None)
    and "slice bounds out of range" in e.get("msg", ""),
}


def to_input(o):
    """the input that reproduces an observation (resolved sizes and margins become literals)"""
    big = lambda k: o.get(k + "k") == 3          # sizes at the top of the int range stay symbolic (MaxInt64 - v)
    return dict(op="enc", wr=o["wr"], fmt=o["fmt"], cp=o["cp"], cn=o["cn"], wk=3 if big("w") else 0, hk=3 if big("h") else 0,
                w0=o["w0"] if big("w") else o["w"], h0=o["h0"] if big("h") else o["h"], hints=o["hints"], tag=o.get("tag", ""))


def tlc_judge(ctx, obs):
    """a TLC process costs seconds to start and a fraction of a millisecond per event: few, large shards"""
    slim = [{k: o[k] for k in KEEP} for o in obs]
    return vlib.validate(ctx, "Trace_EncTotality", slim, stateless=True, timeout=3000,
                         shards=max(1, min(vlib.NCPU, len(slim) // 5000)))


def judge(ctx, inputs, label):
    obs = vlib.drive(ctx, "c12", inputs, timeout=3000)
    bad = tlc_judge(ctx, obs)
    ctx.traces += 1
    stats = {}
    for o in obs:
        ctx.count_case((o["wr"], o["fmt"], o["w"], o["h"], json.dumps(o["hints"], sort_keys=True), o["cp"], o["cn"]))
        k = "matrix" if o["mat"] and not o["err"] else "error" if o["err"] and not o["mat"] else "other"
        stats[k] = stats.get(k, 0) + 1
    ctx.note("%s: %d calls judged (%s); %d rejected by Trace_EncTotality before reproduction" % (
        label, len(obs), ", ".join("%s %d" % kv for kv in sorted(stats.items())), len(bad)))
    if bad:
        # reproduce every rejected call from its resolved literal form before it counts
        cand = sorted(bad, key=lambda b: (b[1][1], b[0]))[:20000]      # totality failures (clause 1) are reported first
        again = vlib.drive(ctx, "c12", [to_input(obs[gi]) for gi, _ in cand], timeout=3000)
        bad2 = dict(tlc_judge(ctx, again))
        lost = []
        for j, (gi, ent) in enumerate(cand):
            if j not in bad2:
                # e.g. a worker process killed by another call's memory exhaustion: the call in flight is blamed the first time only
                lost.append("first clause %s, then accepted: %s" % (ent[1], json.dumps(to_input(obs[gi]))[:400]))
                continue
            o = dict(again[j])
            o["verdict"], o["expected"] = bad2[j][1], {0: "any", 1: "err", 2: "ok"}.get(bad2[j][2], "?")
            o["cls"] = CLS.get(o["wr"], "1d")
            o["content"] = bytes(o["cp"][i % len(o["cp"])] for i in range(min(o["cn"], 60))).decode("latin-1") if o["cp"] else ""
            why = "%s: %s Encode(%r%s, fmt=%d, %dx%d, hints=%s) -> matrix=%d %dx%d err=%d panic=%d hang=%d symbol %dx%d %s: %s" % (
                label, o["wr"], o["content"], "..." if o["cn"] > 60 else "", o["fmt"], o["w"], o["h"],
                [(h["k"], h["t"], h["i"], h["sn"], h["a"], h["b"]) for h in o["hints"]], o["mat"], o["ow"], o["oh"], o["err"], o["panic"], o["hang"],
                o["sw"], o["sh"], o["msg"][:80], CLAUSE.get(o["verdict"], "?"))
            vlib.reject(ctx, o, why, replay_events=[to_input(o)], preds=PREDS)
        if lost:
            if len(lost) == len(cand):
                raise vlib.Infra("no rejected call was reproduced (%d): %s" % (len(lost), lost[0]))
            ctx.note("%s: %d rejected calls were not reproduced on their own and are not counted (first: %s)" % (label, len(lost), lost[0]))
    return obs


def samples(ctx, obs):
    want = [lambda o: o["mat"] == 1 and o["wr"] == "QR" and o["hints"], lambda o: o["err"] == 1 and o["wr"] == "DM" and o["hints"],
            lambda o: o["mat"] == 1 and o["wr"] == "C128", lambda o: o["err"] == 1 and o["fmt"] != OWNFMT[o["wr"]],
            lambda o: o["mat"] == 1 and o["wr"] == "DM" and len(o["hints"]) >= 2, lambda o: o["err"] == 1 and o["w"] < 0]
    for f in want:
        for o in obs:
            if f(o):
                s = {k: o[k] for k in ("wr", "fmt", "cn", "w", "h", "sw", "sh", "mat", "err", "panic", "hang", "ow", "oh")}
                s["cp"] = o["cp"][:24]
                s["hints"] = [[h["k"], h["t"], h["i"], h["sn"], h["a"], h["b"]] for h in o["hints"]]
                ctx.sample(s)
                break


def run(ctx):
    if ctx.quick:
        res = vlib.run_tlc(ctx, "MC_EncTotality", "MC_EncTotality", workers=vlib.NCPU, timeout=900)
    else:
        res = vlib.run_tlc(ctx, "MC_EncTotality", "MC_EncTotality_full", workers=vlib.NCPU, timeout=1800)
    ctx.note("MC_EncTotality (%s): %d states, %d distinct - the contract is consistent, satisfiable, excludes panic / hang / neither / both "
             "and too-small matrices, and is met by the reference rendering" % ("single hints" if ctx.quick else "whole space, with Return", res.generated, res.distinct))
    cfgs = gen_configs(ctx)
    ctx.note("Gen_EncTotality: %d configurations (11 writers x 17 formats x 7x7 size classes; single hint values; hint combinations)" % len(cfgs))
    n = 0
    for k, batch in enumerate(batches(input_stream(ctx, cfgs), 160000)):
        obs = judge(ctx, batch, "configuration space x contents" if k == 0 else "batch %d" % (k + 1))
        samples(ctx, obs)
        n += len(obs)
    ctx.exhaustive = False
    ctx.extra["configurations"] = len(cfgs)
    return vlib.finish(ctx, rule="one case = one Writer.Encode call (writer, format, contents, resolved size, hints). The configuration space "
                       "is enumerated by TLC; the thorough tier replays all of it (single-hint configurations with every content "
                       "class), the quick tier a seeded selection; Data Matrix and Code 128 families are seeded",
                       assumptions=["hint values are of the types the API documents (wrong types are outside the property)",
                                    "time bound: 2 s of processor time per call (wall-clock limit 30 s, heap limit 1.5 GB), each call in a worker process",
                                    "requested sizes up to 10 x the symbol, margins up to 2000 (memory)"],
                       trusted=["TLC", "spec/EncTotality.tla with QRTables / DMTables / OneD / Charset", "harness/c12 (recover, watchdog, "
                                "bare 0x0 margin-0 call as the symbol's module matrix)"])


def replay(ctx, path):
    r = json.load(open(path))
    judge(ctx, r["inputs"], "replay")
    return vlib.finish(ctx, rule="replay of one recorded call")
