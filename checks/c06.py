"""C06 - decoding is total: any input gives a result or a typed error, never a crash.
spec/Totality.tla (call/return contract, allowed error kinds, retry compositions), spec/TotalParse.tla (the QR / Data
Matrix / Aztec bit-stream parsers as total reference automata with an outcome class for EVERY stream),
spec/MC_Totality (design laws; exhaustive generation of branch-hitting streams), spec/Trace_Totality (judgement of
every recorded call of the real readers / decoders / parsers), harness/c06 (driver with recover() + watchdog)."""
import collections, concurrent.futures, json, os, random, subprocess, time
import vlib

READERS = ["qr", "dm", "az", "multiqr", "multiqr.multi", "upcean", "ean13", "ean8", "upca", "upce", "code39", "code39c",
           "code39x", "code93", "code128", "itf", "codabar", "rss14"]
ROWDEC = ["upcean", "ean13", "ean8", "upca", "upce", "code39", "code39c", "code39x", "code93", "code128", "itf", "codabar", "rss14"]
# readers that match the symbols of writer f (sym events): index = writer format number of the driver
OWN = [["qr", "multiqr", "multiqr.multi"], ["dm"], ["ean13", "upcean"], ["ean8", "upcean"], ["upca", "upcean", "ean13"],
       ["upce", "upcean"], ["code39", "code39c", "code39x", "code39x"], ["code93"], ["code128"], ["itf"], ["codabar"]]
DM_SIZES = [8, 10, 12, 14, 16, 18, 20, 22, 24, 26, 32, 36, 40, 44, 48, 52, 64, 72, 80, 88, 96, 104, 120, 132, 144]
OD_APIS = {"od.code93": ["code93"], "od.code39": ["code39", "code39x", "code39c"], "od.code39k": ["code39c", "code39x"],
           "od.code128": ["code128"], "od.codabar": ["codabar"]}
EXPECTED_WHY = {  # every deciding branch of the reference automata must be reached by the TLC-generated streams
    "qr.end-of-data", "qr.terminator", "qr.reserved-mode", "qr.structured-append-truncated", "qr.eci-truncated",
    "qr.eci-unsupported", "qr.eci-designator-form", "qr.count-truncated", "qr.hanzi-truncated", "qr.numeric",
    "qr.alphanumeric", "qr.byte-truncated", "qr.kanji-truncated",
    "dm.end-of-data", "dm.pad", "dm.codeword-0", "dm.reserved-codeword", "dm.structured-append/reader-programming/eci",
    "dm.unlatch-as-last-codeword", "dm.c40-pair-0", "dm.c40-value", "dm.c40-value-after-shift", "dm.c40-shift-value",
    "dm.c40-shift-value-beyond-set", "dm.x12-pair-0", "dm.x12-value", "dm.base256-latch-at-end",
    "dm.base256-length-truncated", "dm.base256-truncated",
    "az.end-of-data", "az.binary-cut-by-end-of-data", "az.control-code-inside-shift", "az.flg7", "az.eci-digit",
    "az.eci-unsupported", "az.eci-cut-by-end-of-data",
    "od.code93", "od.code39", "od.code39k", "od.code128", "od.codabar"}


def E(op, api, a=(), b=(), h=()):
    return dict(op=op, api=api, a=list(a), b=list(b), h=list(h))


# ------------------------------------------------------------------ TLC: design laws + generated parser inputs
def tlc_part(ctx):
    res = vlib.run_tlc(ctx, "MC_Totality", "MC_Totality", workers=2, timeout=600)
    ctx.note("MC_Totality (laws): ECI registry literal = Charset registry; every retry composition of total inner calls "
             "is total and of a documented kind (all inner outcome vectors); one untyped inner error makes the mirrored "
             "QR retry return (nil, nil); designator forms")
    res = vlib.run_tlc(ctx, "MC_Totality", "Gen_Totality", workers=vlib.NCPU, timeout=1500,
                       consts=dict(Depth=0 if ctx.quick else 1), xmx="6g")
    cases = vlib.tlc_printed(res)
    if not cases:
        raise vlib.Infra("Gen_Totality emitted no cases:\n" + res.out[-2000:])
    whys = {c["why"] for c in cases}
    missing = EXPECTED_WHY - whys
    if missing:
        raise vlib.Infra("generator lost branch coverage of the reference automata: %s" % sorted(missing))
    fams = collections.Counter(c["fam"] for c in cases)
    ctx.note("Gen_Totality: %d states; %d parser inputs = every symbol sequence up to the family depth (%s); reference "
             "automaton total on all of them; all %d deciding branches reached" % (
                 res.generated, len(cases), ", ".join("%s %d" % kv for kv in sorted(fams.items())), len(EXPECTED_WHY)))
    ctx.extra["generated_families"] = dict(fams)
    return cases


def rss_rows(ctx, rng, n):
    recs = [dict(ds=[rng.randrange(10) for _ in range(13)]) for _ in range(n)]
    res = vlib.run_tlc(ctx, "MC_RSS14", "Gen_RSS14", files={"seeds.ndjson": recs}, workers=4, timeout=1500)
    syms = vlib.tlc_printed(res)
    if len(syms) != n:
        raise vlib.Infra("Gen_RSS14 printed %d of %d symbols:\n%s" % (len(syms), n, res.out[-1500:]))
    out = []
    for s in syms:
        r = s["runs"][1:]                    # bar first; the leading space is part of the quiet zone
        out.append(r)
        for _ in range(3):
            m = list(r)
            k = rng.random()
            i = rng.randrange(len(m))
            if k < 0.4:
                m[i] = max(1, m[i] + rng.choice([-1, 1, 2]))
            elif k < 0.6:
                m = m[:rng.randrange(1, len(m))]
            elif k < 0.8:
                m = m[rng.randrange(1, len(m) - 1):]
            else:
                m = m[:i] + [m[i]] + m[i:]
            if len(m) % 2 == 0:              # a row of runs starts and ends with a bar
                m = m[:-1]
            if m:
                out.append(m)
    return out


# ------------------------------------------------------------------ seeded inputs
def hints(r, charset=True):
    h = []
    if r.random() < 0.5:
        h.append(2)
    if r.random() < 0.15:
        h.append(1)
    if r.random() < 0.2:
        h.append(5)
    if r.random() < 0.2:
        h.append(r.choice([3, 4, 6, 7, 8]))
    if charset and r.random() < 0.25:
        h.append(10 + r.randrange(14))
    if r.random() < 0.15:
        h.append(30 + r.randrange(5))
    if r.random() < 0.15:
        h.append(40 + r.randrange(5))
    if r.random() < 0.15:
        h.append(50 + r.randrange(5))
    return h


def bits_to_bytes(bits):
    bits = bits + [0] * (-len(bits) % 8)
    return [sum(bits[i + k] << (7 - k) for k in range(8)) for i in range(0, len(bits), 8)]


def bits_to_chunks(bits):
    return [sum(bits[i + k] << k for k in range(min(16, len(bits) - i))) for i in range(0, len(bits), 16)]


def val(v, n):
    return [(v >> (n - 1 - i)) & 1 for i in range(n)]


def qr_stream(r):
    """structured random QR data bits: segments with counts exact / off by a little, designators of the three forms,
    out-of-range digit groups, cut at a random bit"""
    v = r.choice([1, 9, 10, 26, 27, 40])
    k = 0 if v <= 9 else 1 if v <= 26 else 2
    bits = []
    for _ in range(r.randint(1, 4)):
        m = r.choice([1, 1, 2, 2, 4, 4, 8, 13, 7, 7, 3, 5, 9, 0, r.randrange(16)])
        bits += val(m, 4)
        if m == 7:
            form = r.randrange(4)
            e = r.choice([0, 1, 3, 20, 26, 30, 170, 899, 900, r.randrange(1000), r.randrange(1 << 21)])
            bits += val(e & 127, 8) if form == 0 else val(0x8000 | (e & 0x3FFF), 16) if form == 1 else \
                val(0xC00000 | (e & 0x1FFFFF), 24) if form == 2 else val(0xE0 | r.randrange(32), 8)
        elif m == 3:
            bits += val(r.randrange(65536), 16)
        elif m in (1, 2, 4, 8, 13):
            if m == 13:
                bits += val(r.choice([1, 1, 0, r.randrange(16)]), 4)
            cc = {1: (10, 12, 14), 2: (9, 11, 13), 4: (8, 16, 16), 8: (8, 10, 12), 13: (8, 10, 12)}[m][k]
            n = r.choice([0, 1, 2, 3, 4, 5, 7, r.randint(0, 20)])
            declared = n + r.choice([0, 0, 0, 0, 1, -1, 50]) if r.random() < 0.3 else n
            bits += val(max(0, declared) % (1 << cc), cc)
            if m == 1:
                for i in range(n // 3):
                    bits += val(r.choice([r.randrange(1000)] * 5 + [1000, 1023]), 10)
                if n % 3 == 2:
                    bits += val(r.choice([r.randrange(100)] * 5 + [100, 127]), 7)
                elif n % 3 == 1:
                    bits += val(r.choice([r.randrange(10)] * 5 + [10, 15]), 4)
            elif m == 2:
                for i in range(n // 2):
                    bits += val(r.choice([r.randrange(2025)] * 5 + [2025, 2047]), 11)
                if n % 2:
                    bits += val(r.choice([r.randrange(45)] * 5 + [45, 63]), 6)
            elif m == 4:
                for i in range(n):
                    bits += val(r.choice([r.randrange(32, 127)] * 3 + [r.randrange(256)]), 8)
            else:
                for i in range(n):
                    bits += val(r.randrange(8192), 13)
    if r.random() < 0.3:
        bits = bits[:r.randrange(len(bits) + 1)]
    elif r.random() < 0.5:
        bits += [0, 0, 0, 0]
    h = [10 + r.randrange(14)] if r.random() < 0.3 else []
    return E("qrp", "qr.parser", [v, r.randrange(4)], bits_to_bytes(bits), h)


def dm_stream(r):
    n = r.choice([0, 1, 2, 3, 5, 8, 12, r.randint(0, 60)])
    out = []
    while len(out) < n:
        c = r.choice([r.randint(1, 128)] * 6 + [r.randint(130, 229)] * 2 + [129, 230, 231, 232, 233, 234, 235, 236, 237, 238,
                                                                            239, 240, 241, 254, 0, r.randrange(256)])
        out.append(c)
        if c in (230, 238, 239):
            for _ in range(r.randint(0, 4)):
                out += [r.choice([r.randrange(250), r.randrange(256), 0]), r.randrange(256)]
            if r.random() < 0.6:
                out.append(254)
        elif c == 240:
            for _ in range(r.randint(0, 3)):
                out += [r.randrange(256) for _ in range(3)]
            out += r.choice([[0x7C], [0x01, 0xF0], [0, 0x07, 0xC0], [0, 0, 0x1F], []])
        elif c == 231:
            pos = len(out) + 1
            d = r.choice([0, 1, 2, 5, r.randrange(250), 250, 251, 255])
            rnd = lambda v, p: (v + ((149 * p) % 255) + 1) % 256
            out.append(rnd(d, pos))
            if d >= 250:
                out.append(rnd(r.randrange(256), pos + 1))
            out += [r.randrange(256) for _ in range(r.choice([d, d, max(0, d - 1), r.randint(0, 10)]) if d < 250 else r.randint(0, 10))]
    if r.random() < 0.2:
        out = out[:r.randrange(len(out) + 1)]
    return E("dmp", "dm.parser", [], out)


def az_stream(r):
    """Aztec high-level bits: codes of the current table with latches / shifts / binary shifts / FLG(n), cut anywhere"""
    if r.random() < 0.25:
        n = r.choice([0, 1, 2, 3, 4, 5, 6, 9, 10, 11, r.randint(0, 300)])
        bits = [r.randrange(2) for _ in range(n)]
        return E("azp", "az.hld", [n], bits_to_chunks(bits))
    bits, t = [], 0
    for _ in range(r.randint(1, 12)):
        w = 4 if t == 4 else 5
        c = r.choice([r.randrange(1 << w)] * 3 + [0, 28, 29, 30, 31, 14, 15])
        c %= 1 << w
        bits += val(c, w)
        if t == 3 and c == 0 or r.random() < 0.1:
            if not (t == 3 and c == 0):
                bits += val(0, 5) if t != 3 else []
                if t != 3:
                    bits += val(0, 5)
            f = r.choice([0, 1, 2, 3, 6, 7, r.randrange(8)])
            bits += val(f, 3)
            e = r.choice(["3", "26", "030", "899", "900", "999999", "1", "170", "20", str(r.randrange(1000)), "2:", "0"])
            for ch in e[:f] if r.random() < 0.8 else e:
                bits += val((ord(ch) - 48 + 2) % 16, 4)
        if c == 31 and t in (0, 1, 2):
            n = r.choice([0, 1, 2, 31, r.randint(0, 40)])
            bits += val(n, 5)
            if n == 0:
                bits += val(r.choice([0, 1, 5, 2047]), 11)
            bits += [r.randrange(2) for _ in range(8 * r.choice([n, n, max(0, n - 1), 1]))]
        t = r.choice([t, t, r.randrange(5)])      # the driver's table tracking need not be right: the spec recomputes it
    if r.random() < 0.3:
        bits = bits[:r.randrange(len(bits) + 1)]
    return E("azp", "az.hld", [len(bits)], bits_to_chunks(bits))


def eci_blocks(ctx):
    blk = 1000
    out = []

    def span(form, lo, hi):
        for a in range(lo, hi, blk):
            out.append(E("eci", "eci", [form, a, min(blk, hi - a)]))
    if ctx.quick:
        span(1, 0, 128)
        span(2, 0, 2000); span(2, 15384, 16384)
        span(3, 0, 2000); span(3, 999000, 1001000); span(3, (1 << 21) - 1000, 1 << 21)
        for f in (4, 5, 6):
            span(f, 0, 2000); span(f, 999000, 1000000)
    else:
        span(1, 0, 128)
        span(2, 0, 16384)
        span(3, 0, 1 << 21)
        for f in (4, 5, 6):
            span(f, 0, 1000000)
    return out


def fuzz(ctx, rng, n):
    """seeded structured fuzz of the image-level readers, the matrix decoders and the row decoders"""
    out = []
    small = [1, 2, 3, 7, 8, 9, 15, 16, 17, 31, 32, 33, 40, 41, 64, 100, 200]
    for i in range(n):
        k = rng.random()
        if k < 0.30:
            w = rng.choice(small + [rng.randint(1, 200)])
            h = rng.choice([1, 2, 3, 8, 9, 16, 40, 64, 200, rng.randint(1, 200)])
            if rng.random() < 0.02:         # a few large pictures
                w, h = rng.choice([(640, 480), (1000, 30), (30, 1000), (400, 400)])
            out.append(E("img", rng.choice(READERS), [rng.randrange(12), w, h, rng.randrange(1 << 30), rng.randint(1, 60),
                                                       rng.randrange(2)], h=hints(rng)))
        elif k < 0.55:
            f = rng.randrange(11)
            api = rng.choice(READERS) if rng.random() < 0.25 else rng.choice(OWN[f])
            mk = rng.choice([0, 0, 1, 1, 2, 3, 4, 5, 6, 7, 8])
            out.append(E("sym", api, [f, rng.randrange(1 << 30), rng.randint(1, 4), rng.choice([1, 2, 10, 40]), mk,
                                      rng.choice([1, 2, 5, 30]) if mk else 0, rng.randrange(1 << 30),
                                      rng.choice([0, 0, 0, 1, 2, 3]), rng.randrange(2)], h=hints(rng)))
        elif k < 0.70:
            api = rng.choice(["qr.decoder", "dm.decoder", "az.decoder"])
            if api == "qr.decoder":
                w = rng.choice([21, 25, 29, 33, 45, 57, 177, rng.randint(1, 60)])
                h = rng.choice([w, w, 21, 25, 29, 45, rng.randint(1, 60)])
                out.append(E("mat", api, [rng.randrange(12), w, h, rng.randrange(1 << 30), rng.randint(1, 60), 0, 0, 0],
                             h=hints(rng)))
            elif api == "dm.decoder":
                w = rng.choice(DM_SIZES + [rng.randint(1, 150)])
                h = rng.choice([w, w, 8, 12, 16, rng.randint(1, 150)])
                out.append(E("mat", api, [rng.randrange(12), w, h, rng.randrange(1 << 30), rng.randint(1, 60), 0, 0, 0]))
            else:
                c = rng.randrange(2)
                L = rng.randint(1, 4) if c else rng.randint(1, 32)
                base = (11 if c else 14) + 4 * L
                size = base if c else base + 1 + 2 * ((base // 2 - 1) // 15)
                nd = rng.choice([1, 2, 3, rng.randint(1, 60), rng.randint(1, 1700)])
                out.append(E("mat", api, [rng.randrange(12), size, size, rng.randrange(1 << 30), rng.randint(1, 60), c, L, nd]))
        elif k < 0.92:
            nrow = rng.choice([1, 2, 3, 4, 5, 8, 16, 31, 32, 33, 64, 95, 96, 97, 300, rng.randint(1, 300)])
            out.append(E("row", rng.choice(ROWDEC), [1 + rng.randrange(12), nrow, rng.randrange(1 << 30), rng.randrange(100),
                                                      rng.randint(1, 60)], h=hints(rng, charset=False)))
        else:
            mk = rng.choice([0, 1, 1, 2, 3, 4, 5, 6, 7, 8])
            out.append(E("png", rng.choice(["az", "az", "rss14", "rss14", "qr", "dm", "upcean", "multiqr.multi"]),
                         [rng.randrange(1000), mk, rng.choice([1, 2, 5, 30]) if mk else 0, rng.randrange(1 << 30),
                          rng.randrange(4), rng.randrange(2)], h=hints(rng)))
    return out


def symbol_events(rng, cases, n):
    """symbols whose data codewords are TLC-generated / seeded parser streams: the stream reaches the parser through
    error correction, the matrix decoder and (rendered) the image-level reader"""
    out = []
    qr = [c for c in cases if c["op"] == "qrp"]
    dm = [c for c in cases if c["op"] == "dmp" and len(c["b"]) >= 1]
    for i in range(n):
        if rng.random() < 0.5 and qr:
            c = rng.choice(qr)
            v = rng.choice([1, 2, 3, 5, 7] if c["a"][0] <= 9 else [10, 11, 14] if c["a"][0] <= 26 else [27, 28])
            api = rng.choice(["qr.decoder", "qr.decoder", "qr", "multiqr", "multiqr.multi"])
            out.append(E("cwq", api, [v, rng.randrange(4), rng.randrange(8), rng.randrange(4)], c["b"],
                         h=[10 + rng.randrange(14)] if rng.random() < 0.2 else []))
        elif dm:
            c = rng.choice(dm)
            out.append(E("cwd", rng.choice(["dm.decoder", "dm.decoder", "dm"]), [rng.randrange(2), rng.randrange(4)], c["b"],
                         h=[1] if rng.random() < 0.5 else []))
    return out


# ------------------------------------------------------------------ driving (crash tolerant, parallel)
def _drive_chunk(ctx, exe, inputs, watchdog_ms):
    """one driver process over a chunk; when the process dies on an input (fatal runtime error that recover() cannot
    catch) the input is re-run alone; a reproducible death is recorded as an observation of that call, the rest of the
    chunk continues in a fresh process"""
    outs = []
    rest = inputs
    env = vlib.goenv()
    env.update(VERIF_SEED=str(ctx.seed), VERIF_TIER=ctx.tier, VERIF_C06_WATCHDOG_MS=str(watchdog_ms), VERIF_REPO=vlib.REPO)
    deaths = 0
    while rest:
        d = ctx.dir("drv")
        fin, fout = os.path.join(d, "in.ndjson"), os.path.join(d, "out.ndjson")
        vlib.write_ndjson(fin, rest)
        try:
            r = subprocess.run([exe, "exec", fin, fout], capture_output=True, text=True, timeout=3000, env=env)
        except subprocess.TimeoutExpired:
            raise vlib.Infra("vdrive c06 timed out")
        got = vlib.read_ndjson(fout) if os.path.exists(fout) else []
        if r.returncode == 0:
            if len(got) != len(rest):
                raise vlib.Infra("driver c06 returned %d events for %d inputs" % (len(got), len(rest)))
            outs += got
            break
        if r.returncode == 3 or len(got) >= len(rest):       # the driver's own refusal (bad input / construction failed)
            raise vlib.Infra("vdrive c06 exited %d:\n%s" % (r.returncode, (r.stderr or r.stdout)[-3000:]))
        culprit = rest[len(got)]
        deaths += 1
        if deaths > 5:
            raise vlib.Infra("driver c06 died repeatedly:\n" + r.stderr[-2000:])
        d2 = ctx.dir("drv")
        f2in, f2out = os.path.join(d2, "in.ndjson"), os.path.join(d2, "out.ndjson")
        vlib.write_ndjson(f2in, [culprit])
        r2 = subprocess.run([exe, "exec", f2in, f2out], capture_output=True, text=True, timeout=600, env=env)
        if r2.returncode == 0 or r2.returncode == 3:
            raise vlib.Infra("driver c06 died (exit %d) on an input that runs alone:\n%s" % (r.returncode, r.stderr[-2000:]))
        first = (r2.stderr.strip().splitlines() or ["process died"])[0][:160]
        obs = dict(culprit, res=0, err="", errc="", site="", via="", panic=1, hang=0, r=[], msg="fatal: " + first, ms=0, skip=0)
        outs += got + [obs]
        rest = rest[len(got) + 1:]
    return outs


def drive(ctx, inputs, watchdog_ms=20000):
    if not inputs:
        return []
    exe = vlib.build_harness(ctx, "c06")
    n = max(1, min(vlib.NCPU, len(inputs) // 50))
    # interleave so that every process gets the same mix of cheap and expensive calls
    parts = [inputs[i::n] for i in range(n)]
    with concurrent.futures.ThreadPoolExecutor(max_workers=n) as ex:
        res = list(ex.map(lambda p: _drive_chunk(ctx, exe, p, watchdog_ms), parts))
    out = [None] * len(inputs)
    for i, part in enumerate(res):
        out[i::n] = part
    return out


# ------------------------------------------------------------------ judging
def pkind(msg):
    for k, pat in (("makeslice", "makeslice"), ("nilptr", "nil pointer"), ("index", "index out of range"),
                   ("slice", "slice bounds"), ("divide", "divide"), ("fatal", "fatal:")):
        if pat in msg:
            return k
    return "other"


CLAUSE = {1: "did not return exactly one of result / error (panic, hang, neither or both)",
          2: "error of a kind the API may not return", 3: "parser outcome class differs from the reference automaton",
          4: "ECI block: a value has the wrong outcome", 9: "ill-formed observation"}
PREDS = {"nonsquare": lambda e: e.get("op") == "mat" and len(e.get("a", [])) > 2 and e["a"][1] != e["a"][2],
         "short_bits": lambda e: e.get("op") == "azp" and e.get("a", [9])[0] < 2,
         "eci_only_unsupported_panics": lambda e: e.get("op") == "eci" and e.get("mism") == [[1, 4]],
         "aztec_eci_form": lambda e: e.get("op") == "eci" and e.get("a", [0])[0] in (4, 5),
         "exotic_charset_hint": lambda e: any(20 <= c < 30 for c in e.get("h", []))}


def describe(o, ent):
    ev = {k: o.get(k) for k in ("op", "api", "a", "b", "h", "res", "err", "errc", "panic", "hang", "site", "via", "msg", "r")}
    ev["clause"] = ent[1]
    ev["want"] = {0: "any", 1: "format", 2: "ok"}.get(ent[2], "") if ent[1] == 3 else ""
    ev["pkind"] = pkind(o.get("msg", "")) if o.get("panic") else ""
    if o.get("op") == "eci":
        # TLC names the first offending index and the distinct <<expected, observed>> outcome codes of the block
        ev["mism"] = sorted([list(p) for p in ent[3]]) if ent[1] == 4 and len(ent) > 3 else []
        ev["first"] = o["a"][1] + ent[2] - 1 if ent[1] == 4 else -1
        ev["r"] = []
    if len(ev.get("b") or []) > 400:
        ev["b"] = ev["b"][:400]
    return ev


BATCH = 160000


def judge(ctx, inputs, label, watchdog_ms=20000, reproduce=True):
    """in batches (bounded memory of the TLC shards): drive -> validate -> reproduce -> reject"""
    obs = []
    for lo in range(0, len(inputs), BATCH):
        obs += judge_batch(ctx, inputs[lo:lo + BATCH], label, watchdog_ms, reproduce)
    return obs


def judge_batch(ctx, inputs, label, watchdog_ms=20000, reproduce=True):
    """drive -> validate -> reproduce every rejected call -> reject (known finding | violation)"""
    obs = drive(ctx, inputs, watchdog_ms)
    bad = vlib.validate(ctx, "Trace_Totality", obs, stateless=True, timeout=2400)
    ctx.traces += 1
    skipped = 0
    for i, o in enumerate(obs):
        if o.get("skip"):
            skipped += 1
            continue
        if o["op"] == "eci":
            for _ in range(o["a"][2] - 1):
                ctx.evaluations += 1
            ctx.count_case(("eci", tuple(o["a"])))
        elif o["op"] in ("qrp", "dmp", "azp"):
            ctx.count_case((o["op"], tuple(o["a"]), tuple(o["b"]), tuple(o["h"])))
        else:
            ctx.count_case((o["op"], o["api"], tuple(o["a"]), tuple(o["b"][:64]), tuple(o["h"])))
    if skipped:
        ctx.note("%s: %d inputs not run and not judged (the writer refused the seeded content, or the driver process was "
                 "saturated by hanging calls)" % (label, skipped))
    groups = collections.OrderedDict()
    for gi, ent in bad:
        o = obs[gi]
        key = (o["op"], o["api"], ent[1], o.get("site", ""), pkind(o.get("msg", "")) if o.get("panic") else "", o.get("err", ""), o.get("hang", 0))
        groups.setdefault(key, []).append((gi, ent))
    for key, items in groups.items():
        items.sort(key=lambda x: len(json.dumps(inputs[x[0]])))          # smallest inputs first
        take = items[:12]
        sub = [inputs[gi] for gi, _ in take]
        if reproduce:
            wd = 60000 if key[6] else watchdog_ms
            obs2 = drive(ctx, sub[:3] if key[6] else sub, wd)
            bad2 = dict(vlib.validate(ctx, "Trace_Totality", obs2, stateless=True, shards=1))
            confirmed = [(take[j][0], bad2[j], obs2[j]) for j in range(len(obs2)) if j in bad2]
            if not confirmed:       # not a verdict: reported as an infrastructure problem at the end unless real violations exist
                ctx.extra.setdefault("unreproduced", []).append("%s: %d rejected %s calls did not reproduce (first: %s)" % (
                    label, len(items), key[:2], json.dumps(sub[0])[:300]))
                continue
        else:
            confirmed = [(gi, ent, obs[gi]) for gi, ent in take]
        if len(items) > len(take):
            ctx.note("%s: %d more rejected calls of the same kind %s (not listed individually)" % (label, len(items) - len(take), key))
        for gi, ent, o in confirmed[:4]:
            ev = describe(o, ent)
            vlib.reject(ctx, ev, "%s: %s %s a=%s: %s%s" % (
                label, o["op"], o["api"], o["a"], CLAUSE.get(ent[1], "?"),
                " [%s]" % (o.get("msg") or "")[:80] if o.get("msg") else ""), replay_events=[inputs[gi]], preds=PREDS)
    return obs


def sample_of(o):
    return {k: o[k] for k in ("op", "api", "a", "b", "h", "res", "err", "panic", "hang") if k in o}


def run(ctx):
    rng = random.Random(ctx.seed * 65537 + (6 if ctx.quick else 66))
    cases = tlc_part(ctx)
    gen_inputs, gen_meta = [], []
    for c in cases:
        if c["op"] == "runs":       # a 1-D symbol: read as an image and as a pixel row by every reader variant of the symbology
            for api in OD_APIS[c["fam"]]:
                for mode, h in ((0, []), (1, [3, 4] if api in ("code128", "codabar") else [])):
                    gen_inputs.append(E("runs", api, c["a"][:3] + [mode], c["b"], h))
                    gen_meta.append(c)
                # pixel rows that end with the symbol's last bar (no trailing quiet zone), forward and reversed
                for mode in (1, 2):
                    gen_inputs.append(E("runs", api, c["a"][:3] + [mode, 0], c["b"], []))
                    gen_meta.append(c)
                # rows whose width is a multiple of 32 (the BitArray has no spare word behind its last bit): the whole symbol flush
                # with the row end, and the symbol with its last bar cut off by the border (the row ends with the last space)
                for b, t in ((c["b"], 0), (c["b"][:-2], c["b"][-2] if len(c["b"]) >= 3 else 0)):
                    if not b:
                        continue
                    q = 10 + (-(10 + sum(b) + t)) % 32
                    gen_inputs.append(E("runs", api, [q, 1, 1, 1 + len(gen_inputs) % 2, t], b, []))
                    gen_meta.append(c)
        else:
            gen_inputs.append(E(c["op"], c["api"], c["a"], c["b"], c["h"]))
            gen_meta.append(c)
    # RSS-14: the library has no writer for it; conforming symbols come from the reference encoder of spec/RSS14.tla (X01), here
    # also damaged: one run changed by a module, runs dropped at either end, a run doubled - every variant as image, row, reversed row
    rss = rss_rows(ctx, rng, 25 if ctx.quick else 400)
    for runs in rss:
        c = dict(fam="rss14", cls="any", why="reference RSS-14 symbol and damaged variants", b=runs)
        for mode in (0, 1, 2):
            gen_inputs.append(E("runs", "rss14", [rng.choice([1, 2, 10]), rng.choice([1, 2, 3]), rng.choice([1, 4, 40]), mode] + ([0] if mode and rng.random() < 0.3 else []),
                                runs, [2] if rng.random() < 0.3 else []))
            gen_meta.append(c)
    obs = judge(ctx, gen_inputs, "TLC-generated input")
    cls = collections.Counter(c["cls"] for c in cases)
    ctx.extra["generated_classes"] = dict(cls)
    for want in ("format", "ok", "any"):
        for c, o in zip(gen_meta, obs):
            if c["cls"] == want and len(c["b"]) >= 3 and not o["panic"]:
                ctx.sample(dict(kind="TLC-generated %s stream, reference class %s (%s)" % (c["fam"], c["cls"], c["why"]), event=sample_of(o)))
                break

    nstream, nfuzz, nsym = (6000, 9000, 1500) if ctx.quick else (150000, 700000, 60000)
    seeded = []
    for i in range(nstream):
        seeded.append(rng.choice([qr_stream, qr_stream, dm_stream, az_stream])(rng))
    obs = judge(ctx, seeded, "seeded structured stream")
    ecis = eci_blocks(ctx)
    obs_e = judge(ctx, ecis, "ECI block")
    if obs_e:
        o = obs_e[1 % len(obs_e)]
        ctx.sample(dict(kind="ECI block (form, first value, count): outcome codes per value", event=dict(op=o["op"], a=o["a"], r=o["r"][:40])))
    # every QR (version, level) pair: a symbol of the real encoder, undamaged and with a few flipped modules, into the matrix decoder
    # (and, for small versions, rendered into the image reader): reaches every row of the decoder's per-version tables
    allv = []
    for v in range(1, 41):
        for lv in range(4):
            allv.append(E("qrv", "qr.decoder", [v, lv, rng.randrange(1 << 30), 0, 0]))
            allv.append(E("qrv", "qr.decoder", [v, lv, rng.randrange(1 << 30), rng.choice([1, 3, 9, 40]), 0]))
            if v <= 6 or not ctx.quick:
                allv.append(E("qrv", "qr", [v, lv, rng.randrange(1 << 30), rng.choice([0, 2]), rng.randrange(3)]))
                # mirrored symbols, through the locating path and in pure-barcode mode (hint 1), with and without TRY_HARDER
                allv.append(E("qrv", "qr", [v, lv, rng.randrange(1 << 30), 0, rng.randrange(3), 1], h=[1] + ([2] if lv % 2 else [])))
                allv.append(E("qrv", rng.choice(["qr", "multiqr"]), [v, lv, rng.randrange(1 << 30), rng.choice([0, 1]), rng.randrange(3), 1]))
            allv.append(E("qrv", "qr.decoder", [v, lv, rng.randrange(1 << 30), 0, 0, 1]))
    fz = allv + fuzz(ctx, rng, nfuzz) + symbol_events(rng, cases + [dict(op=s["op"], a=s["a"], b=s["b"]) for s in seeded], nsym)
    rng.shuffle(fz)
    obs = judge(ctx, fz, "seeded fuzz call")
    kinds = collections.Counter((o["op"], "result" if o["res"] and not o["err"] else o["err"] or "-") for o in obs if not o.get("skip"))
    ctx.extra["fuzz_outcomes"] = {"%s/%s" % k: v for k, v in sorted(kinds.items())}
    apis = collections.Counter(o["api"] for o in obs)
    ctx.extra["fuzz_calls_per_api"] = dict(apis)
    slow = max((o.get("ms", 0) for o in obs), default=0)
    ctx.note("slowest fuzz call %d ms (watchdog 20000 ms)" % slow)
    for want in ("result", "Checksum", "Format", "NotFound"):
        for o in obs:
            if (("result" if o["res"] and not o["err"] else o["err"]) == want) and o["op"] in ("sym", "cwq", "cwd", "png", "mat"):
                ctx.sample(dict(kind="fuzz call returning %s" % want, event=sample_of(o)), cap=8)
                break
    ctx.exhaustive = False
    unrep = ctx.extra.get("unreproduced", [])
    for u in unrep:
        ctx.note("NOT REPRODUCED (no verdict from these calls): " + u)
    if unrep and not ctx.rejected:
        raise vlib.Infra("; ".join(unrep))
    return vlib.finish(
        ctx,
        rule="one case = one call of a real reader / decoder / parser with a distinct input (op, API, arguments, hints); "
             "an ECI block of 1000 values counts 1000 evaluations and one case; TLC-generated streams are all symbol "
             "sequences up to the family depth, the rest is seeded",
        assumptions=["hint maps carry well-typed values (CHARACTER_SET: a string; callbacks of the named func type)",
                     "the Aztec decoder is given a module matrix of the size its (compact, layers) metadata implies",
                     "row decoders get non-empty rows",
                     "error kind = dynamic type of the returned error value (the library's own convention: type switches)",
                     "DecodeMultiple may return an empty list with a nil error; HighLevelDecode's result is its nil error",
                     "calls that do not return within 20 s count as hangs (slowest observed call is reported in notes)"],
        trusted=["TLC", "spec/Totality.tla + spec/TotalParse.tla (written from ISO/IEC 18004, 16022, 24778)",
                 "golang.org/x/text decoders are total", "harness/c06 (input construction, recover + watchdog, error kind projection)"])


def replay(ctx, path):
    r = json.load(open(path))
    judge(ctx, r["inputs"], "replay")
    return vlib.finish(ctx, rule="replay of one recorded call")
