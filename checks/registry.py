"""Per-property registration data; bin/mkmanifest turns it into MANIFEST.json."""
HOOK_COMMITS = []
CHECKS = {
 "C16": dict(
    category="model_checking",
    text="spec/Bits.tla specifies BitMatrix and BitArray as naive 0/1 grids with one operator per exported method. "
         "TLC (a) model-checks the abstract machine on tiny grids against the algebra of a plain container, (b) generates "
         "operation histories on word-boundary sizes that are replayed on the real containers, and (c) validates recorded "
         "histories of the real containers (every width 1..130, BitArray sizes 0..200, seeded histories over the whole API): "
         "after every call the full projected state, the answer, the error outcome and absence of panics must equal the "
         "model's step. Exhaustive over sizes, sampled over histories.",
    design_ref="DESIGN.md section 6 C16",
    note="Trusted: TLC, the transcription of the naive model in Bits.tla, and the harness projection (Get of every cell, "
         "recorded as 16-bit chunks). In-range arguments only (Set/Flip inside the matrix, SetBulk without bits beyond size).",
    technique="TLA+ abstract container spec; TLC model checking + TLC trace validation of recorded API histories + replay of TLC-generated behaviours"),
}

QR_TRUST = ("Trusted: TLC; the transcription of ISO/IEC 18004 in spec/QRTables.tla, QRSymbol.tla, QRStream.tla (independent of the library's "
            "tables, cross-checked against a second generator and by the structural laws MC_QR proves for all 160 version/level pairs); "
            "golang.org/x/text for the bytes of a text in a non-default character set; the harness projection (module matrix as 16-bit chunks).")
CHECKS["C07"] = dict(
    category="model_checking",
    text="TLC model-checks the QR reference library itself (MC_QR: codeword totals = raw modules/8 from the function-pattern map, block "
         "table laws, alignment positions, BCH(15,5)/(18,6) words by polynomial division and their minimum distances, reference "
         "construction -> read-out -> parser round trip with zero syndromes). Trace validation then compares, module by module, matrices "
         "produced by the real Encoder_encode / MatrixUtil_buildMatrix with the reference symbol TLC builds from the text (segment bits, "
         "RS parity from prod(x-a^i), interleave, zig-zag placement, mask, function patterns, format/version info), and the decoder's "
         "per-version tables, count widths and BCH decoders with the spec. Quick: all 40 versions at rotating (level, mask) plus versions "
         "1, 7, 40 at many combinations; thorough: all 1280 (version, level, mask) configurations.",
    design_ref="DESIGN.md section 6 C07", note=QR_TRUST,
    technique="TLA+ reference construction of the symbol (ISO 18004) + TLC trace validation of encoder output and decoder tables")
CHECKS["C13"] = dict(
    category="model_checking",
    text="MC_QR proves on the design that the encoder's two-pass version recommendation equals min{v : fits} for EVERY character count "
         "(all modes, levels, header sizes) - settling the source comment 'not sure this works in 100% of cases' - and that the closed-form "
         "capacities equal the published figures (7089/4296/2953/1817 for 40-L). Trace validation binds the code: encode requests at "
         "every capacity boundary cap(v), cap(v)+1 of all 160 (version, level) pairs x 4 modes, free and with forced versions, must "
         "yield exactly the spec's version or a refusal (thorough: every length for 8 mode/level pairs). Data Matrix size selection is "
         "validated by the Data Matrix checks' size events.",
    design_ref="DESIGN.md section 6 C13", note=QR_TRUST,
    technique="TLC model checking of the version-recommendation design + trace validation of encode requests at all capacity boundaries")
CHECKS["C01"] = dict(
    category="model_checking",
    text="Every recorded QR encode request (boundary lengths capacity / capacity-1 for each version, level and mode; forced versions and "
         "masks; all 256 byte values; character-set hints; seeded random texts; rendered images of many sizes and margins) is judged by "
         "TLC against the ISO 18004 reference: expected mode, version and refusal, (for a rotating subset) the whole matrix against the "
         "reference symbol built from the text, the real decoder's text and level on the matrix, and the pure-barcode reader's text, "
         "format and level on the rendered image. MC_QR shows the reference encoder and reference reader are inverse to each other, so "
         "an error shared by the library's encoder and decoder cannot hide.",
    design_ref="DESIGN.md section 6 C01", note=QR_TRUST + " Sampled over texts; exhaustive over (version, level, mode) boundaries only in the thorough tier.",
    technique="TLA+ reference encoder/decoder (ISO 18004), TLC model checking of their round trip + trace validation of real write/read calls")
CHECKS["C05"] = dict(
    category="fault_enumeration",
    text="Fault scripts are written in the standard's own coordinates (block, codeword-in-block, xor value; format / version copy and "
         "bit) and turned into module flips through placement maps that TLC computes from ISO 18004 / ISO 16022 (not from the library). "
         "They are applied to symbols written by the real encoder and decoded by the real decoder; TLC re-derives every script, decides "
         "whether it is within capacity (<= floor(ec/2) codewords per block, <= 3 bits per format/version copy) and requires the original "
         "text. Single-codeword faults enumerate every codeword position of every block (quick: QR versions 1,5,7,10,14 fully, 27/40 "
         "strided; thorough: all 160 pairs), full-capacity scripts hit every block at once, all C(15,<=3) format subsets are enumerated; "
         "scripts one codeword beyond capacity must give an error or the right text. MC_QR proves the BCH minimum distances (7 / 8).",
    design_ref="DESIGN.md section 6 C05",
    note=QR_TRUST + " Replacement values are sampled. Texts are compared through CRC-32 digests computed by the harness.",
    technique="fault enumeration driven by TLA+ placement/block-structure specs; TLC validates every script and outcome")

NOT_YET = {
}
