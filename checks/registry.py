"""Per-property registration data; bin/mkmanifest turns it into MANIFEST.json."""
HOOK_COMMITS = []
CHECKS = {
 "C16": dict(
    category="model_checking",
    text="spec/Bits.tla specifies BitMatrix and BitArray as naive 0/1 grids with one operator per exported method. "
         "TLC (a) model-checks the abstract machine on tiny grids against the algebra of a plain container, (b) generates "
         "operation histories on word-boundary sizes that are replayed on the real containers, and (c) validates recorded "
         "histories of the real containers (every width 1..130, BitArray sizes 0..200, seeded histories over the whole API): "
         "after every call the full projected state, the answer, the error outcome and absence of panics must equal the "
         "model's step. Exhaustive over sizes, sampled over histories.",
    design_ref="DESIGN.md section 6 C16",
    note="Trusted: TLC, the transcription of the naive model in Bits.tla, and the harness projection (Get of every cell, "
         "recorded as 16-bit chunks). In-range arguments only (Set/Flip inside the matrix, SetBulk without bits beyond size).",
    technique="TLA+ abstract container spec; TLC model checking + TLC trace validation of recorded API histories + replay of TLC-generated behaviours"),
}
NOT_YET = {
}
