"""Per-property registration data; bin/mkmanifest turns it into MANIFEST.json."""
HOOK_COMMITS = ["5816b2c", "0e6a52c", "93c1311", "d17fd79"]
CHECKS = {
 "C16": dict(
    category="model_checking",
    text="spec/Bits.tla specifies BitMatrix and BitArray as naive 0/1 grids with one operator per exported method. "
         "TLC (a) model-checks the abstract machine on tiny grids against the algebra of a plain container, (b) generates "
         "operation histories on word-boundary sizes that are replayed on the real containers, and (c) validates recorded "
         "histories of the real containers (every width 1..130, BitArray sizes 0..200, seeded histories over the whole API): "
         "after every call the full projected state, the answer, the error outcome and absence of panics must equal the "
         "model's step. Exhaustive over sizes, sampled over histories.",
    design_ref="DESIGN.md section 6 C16",
    note="Trusted: TLC, the transcription of the naive model in Bits.tla, and the harness projection (Get of every cell, "
         "recorded as 16-bit chunks). In-range arguments only (Set/Flip inside the matrix, SetBulk without bits beyond size).",
    technique="TLA+ abstract container spec; TLC model checking + TLC trace validation of recorded API histories + replay of TLC-generated behaviours"),
}

QR_TRUST = ("Trusted: TLC; the transcription of ISO/IEC 18004 in spec/QRTables.tla, QRSymbol.tla, QRStream.tla (independent of the library's "
            "tables, cross-checked against a second generator and by the structural laws MC_QR proves for all 160 version/level pairs); "
            "golang.org/x/text for the bytes of a text in a non-default character set; the harness projection (module matrix as 16-bit chunks).")
CHECKS["C07"] = dict(
    category="model_checking",
    text="TLC model-checks the QR reference library itself (MC_QR: codeword totals = raw modules/8 from the function-pattern map, block "
         "table laws, alignment positions, BCH(15,5)/(18,6) words by polynomial division and their minimum distances, reference "
         "construction -> read-out -> parser round trip with zero syndromes). Trace validation then compares, module by module, matrices "
         "produced by the real Encoder_encode / MatrixUtil_buildMatrix with the reference symbol TLC builds from the text (segment bits, "
         "RS parity from prod(x-a^i), interleave, zig-zag placement, mask, function patterns, format/version info), and the decoder's "
         "per-version tables, count widths and BCH decoders with the spec. Quick: all 40 versions at rotating (level, mask) plus versions "
         "1, 7, 40 at many combinations; thorough: all 1280 (version, level, mask) configurations.",
    design_ref="DESIGN.md section 6 C07", note=QR_TRUST,
    technique="TLA+ reference construction of the symbol (ISO 18004) + TLC trace validation of encoder output and decoder tables")
CHECKS["C13"] = dict(
    category="model_checking",
    text="MC_QR proves on the design that the encoder's two-pass version recommendation equals min{v : fits} for EVERY character count "
         "(all modes, levels, header sizes) - settling the source comment 'not sure this works in 100% of cases' - and that the closed-form "
         "capacities equal the published figures (7089/4296/2953/1817 for 40-L). Trace validation binds the code: encode requests at "
         "every capacity boundary cap(v), cap(v)+1 of all 160 (version, level) pairs x 4 modes, free and with forced versions, must "
         "yield exactly the spec's version or a refusal (thorough: every length for 8 mode/level pairs). Data Matrix size selection is "
         "validated by the Data Matrix checks' size events.",
    design_ref="DESIGN.md section 6 C13", note=QR_TRUST,
    technique="TLC model checking of the version-recommendation design + trace validation of encode requests at all capacity boundaries")
CHECKS["C01"] = dict(
    category="model_checking",
    text="Every recorded QR encode request (boundary lengths capacity / capacity-1 for each version, level and mode; forced versions and "
         "masks; all 256 byte values; character-set hints; seeded random texts; rendered images of many sizes and margins) is judged by "
         "TLC against the ISO 18004 reference: expected mode, version and refusal, (for a rotating subset) the whole matrix against the "
         "reference symbol built from the text, the real decoder's text and level on the matrix, and the pure-barcode reader's text, "
         "format and level on the rendered image. MC_QR shows the reference encoder and reference reader are inverse to each other, so "
         "an error shared by the library's encoder and decoder cannot hide.",
    design_ref="DESIGN.md section 6 C01", note=QR_TRUST + " Sampled over texts; exhaustive over (version, level, mode) boundaries only in the thorough tier.",
    technique="TLA+ reference encoder/decoder (ISO 18004), TLC model checking of their round trip + trace validation of real write/read calls")
CHECKS["C05"] = dict(
    category="fault_enumeration",
    text="Fault scripts are written in the standard's own coordinates (block, codeword-in-block, xor value; format / version copy and "
         "bit) and turned into module flips through placement maps that TLC computes from ISO 18004 / ISO 16022 (not from the library). "
         "They are applied to symbols written by the real encoder and decoded by the real decoder; TLC re-derives every script, decides "
         "whether it is within capacity (<= floor(ec/2) codewords per block, <= 3 bits per format/version copy) and requires the original "
         "text. Single-codeword faults enumerate every codeword position of every block (quick: QR versions 1,5,7,10,14 fully, 27/40 "
         "strided; thorough: all 160 pairs), full-capacity scripts hit every block at once, all C(15,<=3) format subsets are enumerated; "
         "scripts one codeword beyond capacity must give an error or the right text. MC_QR proves the BCH minimum distances (7 / 8).",
    design_ref="DESIGN.md section 6 C05",
    note=QR_TRUST + " Replacement values are sampled. Texts are compared through CRC-32 digests computed by the harness.",
    technique="fault enumeration driven by TLA+ placement/block-structure specs; TLC validates every script and outcome")

CHECKS["C20"] = dict(
    category="model_checking",
    text="spec/RunLength.tla defines run recording (forward / reverse) declaratively over pixel rows and the pattern-match score as the exact "
         "fraction sum|c_i*P - p_i*T| / (P*T) with the two +Inf cases. TLC model-checks a pixel-step recording automaton against the "
         "declarative definition on every row of length <= 8 (thorough <= 11) x every start x 1..4(5) counters, and the score laws "
         "(under-resolved => +Inf, exact multiple => 0, scale invariance, zero iff proportional) over all counter vectors with small entries "
         "for every 3/4/5-element pattern. Both models print their cases with expected outcomes; these plus seeded rows of every length "
         "0..300 and seeded vectors (entries 0..40) for every pattern family are executed on the real RecordPattern / RecordPatternInReverse / "
         "PatternMatchVariance, and Trace_RunLength judges every call in exact integer arithmetic (k = round(r*den) = num, residual <= 1e-9*den, isInf).",
    design_ref="DESIGN.md section 6 C20",
    note="Trusted: TLC, RunLength.tla, the harness projection of float64 to round(r*den)+residual. A deviation exactly equal to the allowance "
         "is accepted either way unless the arithmetic is exact in binary. start >= 0, equal-length counters/pattern.",
    technique="TLA+ spec; TLC design model checking + TLC-generated cases replayed on real code + TLC trace validation")
CHECKS["C19"] = dict(
    category="model_checking",
    text="spec/Geom.tla specifies, in exact integer arithmetic, the check-and-nudge contract (one rule instantiated for all four edges, two "
         "passes), projective maps as integer 3x3 matrices and grid sampling as 'pixel under the truncated transformed cell centre after "
         "nudging, NotFound otherwise'. TLC model-checks a nudge automaton on all rows of <= 2 arbitrary points and all equally spaced lines "
         "of <= 4(8) points with half-pixel coordinates around every edge (automaton = functional form, x/y and reversal symmetry, "
         "idempotence), and that SquareToQuad maps the unit square onto every convex quadrilateral with small integer corners. All MC rows "
         "and seeded lines go to the real GridSampler_checkAndNudgePoints; TLC-generated exact rational points for random quadrilateral "
         "pairs go to QuadrilateralToQuadrilateral(...).TransformPoints (judged at 1e-6 relative); SampleGrid / SampleGridWithTransform are "
         "judged bit by bit for dyadic affine maps (exact, grids 1..177) and integer-pixel perspective maps.",
    design_ref="DESIGN.md section 6 C19",
    note="Trusted: TLC, Geom.tla, harness fixed-point projection. Truncation toward zero; a coordinate in (-2,-1) may be nudged or refused. "
         "'Never reads outside' is observed through wrong bits or panics. Perspective sample events within 1e-6 of a nudge threshold are skipped.",
    technique="TLA+ spec in exact integer/rational arithmetic; TLC design model checking + TLC-generated cases + TLC trace validation of real calls")
CHECKS["C17"] = dict(
    category="model_checking",
    text="spec/Lum.tla models a luminance source as a window (left, top, w, h, inversion) on a 2-D grey array with Crop classified by the "
         "property's wording, Invert, the counter-clockwise quarter turn, the global-histogram binariser as exact integer arithmetic and the "
         "bilevel law black == (lum == 0) or NotFound for both binarisers. TLC model-checks the view algebra exhaustively on small windows "
         "(four quarter turns, double inversion, crop = offset, crop of crop, views stay inside their base) and the binariser model on all small "
         "bilevel rows / images; generates all histories of two view operations on tiny windows and simulated histories of six, replayed on RGB, "
         "PlanarYUV and ten Go image types; and validates every recorded call (GetRow, GetMatrix, Crop, Invert, RotateCounterClockwise, "
         "GetBlackRow, GetBlackMatrix, BinaryBitmap.Crop/Rotate, cached matrix) pixel-wise in Trace_Lum. Thorough: all bilevel sizes 1..60 x 1..60.",
    design_ref="DESIGN.md section 6 C17",
    note="Trusted: TLC, Lum.tla, harness projection (GetMatrix rows, row checksums, BitMatrix chunks). Opaque grey pixels only; crop extents >= 1. "
         "On non-bilevel images >= 40x40 the hybrid method is checked only for dimensions and absence of panics.",
    technique="TLA+ window/array model + exact integer model of the global-histogram binariser; TLC model checking, TLC-generated histories, TLC trace validation")
CHECKS["C14"] = dict(
    category="model_checking",
    text="spec/Render.tla defines out = max(req, n+q), the module size as the largest integer with (n+q)*s <= out (2-D: the smaller axis), "
         "pad = floor((out - n*s)/2) and the pixel -> module map for QR (margin on every side), 1-D (margin shared, full-height bars) and Data "
         "Matrix (requested size if the symbol fits in both directions, else the bare symbol). TLC model-checks the arithmetic lemmas for every "
         "n <= 40, q <= 40, req <= 400, generates requested sizes on / just below / just above every multiple of (n+q) from module counts "
         "measured on the real encoders, and validates every Writer.Encode call: the BitMatrix is read through Bounds/ColorModel/At as run-length "
         "rows and TLC recomputes size, scale, padding and every image row from the encoder-level module matrix. Exhaustive small squares for QR v1 "
         "and EAN-8; boundary and seeded sizes up to 8x natural for all 11 writers with margins 0..20.",
    design_ref="DESIGN.md section 6 C14",
    note="Trusted: TLC, Render.tla, harness projection (image.Image view -> run-length rows). Requested sizes >= 0, margins 0..20; documented default "
         "margins expected without a hint. Matrix correctness itself is C07/C08.",
    technique="TLA+ rendering-geometry spec; TLC model checking of the lemmas, TLC-generated boundary sizes, TLC trace validation of Writer.Encode images")
CHECKS["C04"] = dict(
    category="model_checking",
    text="MC_GF makes TLC prove, per field (0x11D/256 base 0; 0x12D/256, 0x13/16, 0x43/64, 0x409/1024, 0x1069/4096 base 1), that alpha = 2 is "
         "primitive, log inverts exp, and table product / inverse / exp(log) equal carry-less multiplication mod the primitive polynomial for "
         "every pair (quick: all pairs of five fields + 384 rows of GF(4096); thorough: all 17.96 M pairs). MC_RS checks tiny GF(16) codes "
         "exhaustively (systematic, zero syndromes, minimum distance r+1, unique nearest codeword up to capacity). TLC generates every error "
         "pattern of small weight on short codes of all six fields; Trace_RS judges the real code: Exp/Log/Inverse for all elements, Multiply rows, "
         "Encode = data prefix + zero syndromes, Encode -> corrupt -> Decode returns the sent word for <= floor(r/2) errors, over all QR, Data "
         "Matrix and Aztec block shapes (sampled for long codes, exhaustive for the short ones).",
    design_ref="DESIGN.md section 6 C04",
    note="Trusted: TLC, CommunityModules Bitwise/Json, field parameters in GF.tla. Error sets beyond floor(r/2) carry no demand. Log is accepted as any "
         "exponent e with alpha^e = x.",
    technique="TLA+ definition of GF(2^m) and RS codes; TLC model checking of tables and tiny codes + TLC-generated error patterns + trace validation of the real codec")
CHECKS["C10"] = dict(
    category="model_checking",
    text="OneD/Check specify the check characters from the standards (UPC/EAN mod 10 - UPC-E on the UPC-A expansion -, Code 128 mod 103, Code 93 C/K "
         "mod 47, EAN-2/EAN-5 parity), symbol construction from the standards' tables and an exact module-level reference reader. TLC checks the "
         "arithmetic laws exhaustively (single substitution changes every weighted sum; Expand(Suppress(u)) = u for every zero-suppressible UPC-A "
         "number and all 2 000 000 UPC-E numbers; add-on acceptance iff parity matches), builds the symbol of a seeded number and all its "
         "single-character substitutions that keep the original check characters, and judges the real readers' answers on paintings of those "
         "symbols (allowed: the forward reading, else the reversed row at orientation 180, else an error) and the real writers' acceptance. "
         "Writer acceptance is exhaustive over all UPC-E and EAN-8 payloads in the thorough tier.",
    design_ref="DESIGN.md section 6 C10",
    note="Trusted: TLC, OneD/OneDTables/Check specs, harness painting. Code 128 / Code 93 tables are pinned from the baseline after structural "
         "validation. Readers observed on clean renderings. An answer from the reversed row with a verifying check digit is tolerated (see DESIGN).",
    technique="TLA+ reference semantics of 1-D check characters; TLC model checking of checksum laws + TLC-generated fault-injected symbols + trace validation")
CHECKS["C03"] = dict(
    category="model_checking",
    text="OneDRT specifies, per symbology, which contents a writer must accept / refuse, the canonical text, the matching reader's domain and "
         "reference encoders (Code 128 with sets A/B/C, switches and SHIFT; Code 39 / 93 full ASCII). TLC checks Read(Symbol(c)) = Canonical(c) "
         "exhaustively on small scopes (every ASCII string <= 2 and class strings of length 3 for Code 39/93, Code 128 class strings <= 4(6) plus "
         "digit runs, ITF lengths 2..16, all Codabar guard pairs, UPC/EAN families with every wrong check digit refused), builds reference-encoded "
         "symbols the real readers must read, and validates recorded write -> read round trips of the real code across all 9 symbologies (sizes, "
         "margins, matching and multi-format readers, forced code sets, invalid contents). Round trips of all 2 000 000 UPC-E numbers and all "
         "10 000 000 EAN-8 payloads are exhaustive in the thorough tier (block events).",
    design_ref="DESIGN.md section 6 C03",
    note="Trusted: TLC, the 1-D spec modules, harness run-length projection; width tables pinned after structural validation. Sizes are a grid. "
         "Known finding C03-upce-default-quiet-zone is open (UPC-E at the default margin).",
    technique="TLA+ reference encoders/readers for nine 1-D symbologies; TLC model checking + trace validation of real write->read round trips + replay of TLC-built symbols")
CHECKS["C11"] = dict(
    category="model_checking",
    text="spec/Aztec.tla is an independent reference encoder written from ISO/IEC 24778 (five code tables with latch/shift/binary-shift scripts, bit "
         "stuffing, RS over GF(16/64/256/1024/4096), mode message, bull's eye, orientation marks, reference grid, layer spiral) plus the high-level "
         "decode automaton. TLC model-checks the oracle (spiral is a bijection for all 36 sizes, every mode-message header is an RS codeword, all "
         "scripts of <= 3(4) segments read back through stuffing), replays every enumerated script on the real HighLevelDecode, and generates per "
         "symbol a random script filling it, fault sets up to floor(check/2) codewords placed through the spec's spiral, and the module matrix. The "
         "harness decodes these directly and as rendered images (4 rotations, 2-5 px/module, clean and damaged); Trace_Aztec re-derives the matrix "
         "and the damage from the spec and accepts only 'no error, text = script text'. Quick: 15 sizes; thorough: all 36. "
         "One Decoder and one AztecReader serve the whole run (equal-width compact / full-range neighbours in both orders); a third fault "
         "set per symbol blots data codewords to all-0 / all-1; Gen_AztecCore lays the mode message of every size x data-codeword count (all "
         "counts in the thorough tier) round the mode ring and detector.Detect must announce (compact, layers, count).",
    design_ref="DESIGN.md section 6 C11",
    note="Trusted: TLC; Aztec.tla as embodiment of ISO/IEC 24778 (self-checked); harness projection. Not generated: FLG(n)/ECI. Known finding "
         "C11-scale2-centre-estimate is open.",
    technique="TLA+ reference encoder + decode automaton; TLC model checking; TLC-generated reference symbols and fault sets replayed on the real decoder/reader; trace validation")
CHECKS["C15"] = dict(
    category="model_checking",
    text="spec/Charset.tla specifies the ECI registry (names, aliases, numbers), lookups, the 1/2/3-byte designator, the character-set guess as a "
         "fold over bytes and the QR rules (designator only for hinted byte mode; segment charset = designator > decode hint > guess). TLC "
         "model-checks registry consistency, the designator round trip and lookup outcome for all ECI numbers 0..999999, and over all class byte "
         "strings <= 5(6) that well-formed non-ASCII UTF-8 is guessed UTF-8 and a designator or hint is never re-guessed; every explored string is "
         "replayed on the real guess. Trace_Charset validates every call of the real code: names and aliases, blocks covering every ECI number, QR "
         "write -> read with a CHARACTER_SET hint for every defined byte of the single-byte sets, seeded multi-byte and no-hint UTF-8 texts, "
         "unrepresentable texts refused, unregistered / out-of-range ECI in a stream = format error.",
    design_ref="DESIGN.md section 6 C15",
    note="Trusted: TLC; Charset.tla; golang.org/x/text byte<->rune tables. 'Registered' means the sets the library exports (22; ISO-8859-6/8/10/11/14 "
         "are unregistered in this port).",
    technique="TLA+ registry/designator/guess-fold spec; TLC model checking (class strings, all ECI numbers); TLC-generated streams; trace validation")
CHECKS["C08"] = dict(
    category="model_checking",
    text="MC_DM proves the Data Matrix reference itself: Table 7 structural laws for the 30 sizes, Annex F placement is a bijection onto every "
         "mapping matrix with the fixed corner pattern exactly where required, every interleaved block (incl. the 10 blocks of 144x144) has zero "
         "syndromes for the generator prod(x - 2^i) over 0x12D, randomisation formulas, capacity order. Trace validation compares, module by "
         "module, symbols written by the real DataMatrixWriter for all 30 sizes (exact fills, forced sizes with long pad runs checked against the "
         "253-state rule, mixed texts) with the reference built from the codewords; ErrorCorrection_EncodeECC200 on random data and unit vectors "
         "(exposing every generator polynomial); DefaultPlacement on arbitrary codewords for all 30 mapping sizes; SymbolInfo attributes; and the "
         "decoder's size table (via a verif-tagged accessor) against Table 7.",
    design_ref="DESIGN.md section 6 C08",
    note="Trusted: TLC; transcription of ISO/IEC 16022 in spec/DMTables.tla and DMPlacement.tla (self-checked by MC_DM; GF(256) tables are literals "
         "proved against the shift-and-xor definition). Data codewords are taken from EncodeHighLevel (their correctness is C02).",
    technique="TLA+ reference construction (ISO 16022 Table 7, RS parity, Annex F placement, finder) + TLC trace validation of writer / ECC / placement / tables")
CHECKS["C02"] = dict(
    category="model_checking",
    text="spec/DMEnc.tla is the high-level encoder as a state machine shaped like the code (dispatch loop, one action per loop iteration of "
         "each mode encoder, end-of-data handlers incl. the C40 backtracking, symbol-size feedback, look-ahead in exact twelfths with the float "
         "rounding slack). TLC explores ALL messages up to length 4 (thorough 5) over 11 character classes, up to 6 (9) over four family "
         "alphabets, small-symbol size hints and random long walks: every behaviour terminates within the step bound (no mode oscillation), "
         "never panics, and every finished encodation decodes - by the ISO/IEC 16022 reference decoder of spec/DMHL.tla - to the message; "
         "terminal states contradicting that are replayed on the real encoder before they count, and the model's outcome is compared with the "
         "real encoder's for every enumerated message (equal for all 177 155 messages <= 5). Independently of the model, every recorded "
         "EncodeHighLevel call (all class strings <= 3 (5), families <= 6 (8), capacity fillers of all 30 sizes, seeded long texts with hints, "
         "macros, non-Latin-1) is judged by TLC through the reference decoder: codewords decode to the text, padding rule, smallest admissible "
         "symbol, return within the watchdog, refusal only if not even plain ASCII fits; the real decoder and writer -> reader path must agree.",
    design_ref="DESIGN.md section 6 C02, section 12.3",
    note="Trusted: TLC; the reference decoder (DMHL.tla) and Table 7 (DMTables.tla); Go's string conversion for the UTF-8 form of a Latin-1 text. "
         "'Fits' is the sufficient condition 'plain ASCII encodation fits'. A final unlatch codeword in the last position is tolerated as readers do. "
         "The encoder model over-approximates float rounding in the look-ahead (set of results); model/code disagreement is reported in the evidence, "
         "not as a violation. Known finding C02-x12-illegal-character-mid-triplet is open.",
    technique="TLA+ encoder state machine model-checked by TLC (termination, no panic, round trip through a TLA+ reference decoder) + TLC trace validation of exhaustive class-string and seeded encode/decode/read calls")
CHECKS["C18"] = dict(
    category="model_checking",
    text="spec/Conc.tla models the library's shared state at the grain of its own reads and writes (package tables written only during "
         "initialisation; the Reed-Solomon generator cache as read-length / append / read-entry steps on an object created per call; row "
         "decoder scratch buffers per reader instance). TLC explores ALL interleavings of 2 (thorough 3) goroutines x programs of 1-2 operations "
         "and checks NoRace, NoRunPhaseWrite and Deterministic; it must also REJECT the mutated designs (hoisted encoder, shared reader, lazily "
         "built tables) - a non-vacuity test run on every check. The real library is driven by K = 2..8 (thorough ..64) goroutines with "
         "private writer / reader instances of all symbologies under the race detector (GOMAXPROCS 2/4/16, randomised start barriers) with "
         "verif hooks reporting every access to the generator cache, the grid sampler, GF table construction and the 1-D scratch buffers; "
         "Trace_Conc accepts a run only if every cache / scratch object was touched by one goroutine, package state saw no write, every "
         "result digest equals the one obtained alone, and the race detector reported nothing. "
         "Jobs include ECI-designated QR symbols (UTF-16BE, unregistered spellings), reference Aztec symbols of all four codeword sizes, EAN/UPC "
         "add-on symbols and directly decoded DAMAGED QR / Data Matrix symbols; jobs marked first are run by every goroutine at the start of each "
         "fresh process (lazily built state is first used by all of them at once); even rounds run without hooks and without any driver lock (a "
         "mutex in the hook would order the goroutines for the race detector), odd rounds give the ownership observations.",
    design_ref="DESIGN.md section 6 C18",
    note="Trusted: TLC, the Go race detector, Conc.tla. Exhaustive over schedules only on the model; the real code is observed on the "
         "schedules the Go runtime produced (sampled). Hooks cover the known shared state; other shared state introduced by a change is "
         "visible to the race detector and to the result comparison only.",
    technique="TLA+ ownership/interleaving model checked exhaustively by TLC (incl. rejected mutated designs) + trace validation of race-detector runs with access hooks")
CHECKS["C12"] = dict(
    category="model_checking",
    text="spec/EncTotality.tla states the contract of Writer.Encode as a call/return automaton: T (no panic, no hang, exactly one of matrix / "
         "error), R (certain refusals: empty contents, foreign format, negative size, out-of-range hint values, contents the symbology cannot "
         "hold), A (certain acceptance), D (the depicted symbol is a symbol of the symbology able to hold the contents - QR 17+4v with ISO 18004 "
         "capacities, the Table-7 sizes admitted by shape/min/max hints, 1-D module counts - and the matrix is >= the symbol and, for QR / 1-D, "
         ">= max(requested, 1)). TLC model-checks the contract (never contradictory, always satisfiable, excludes panic / hang / neither / both "
         "and every too-small matrix, met by the reference rendering of Render.tla) and enumerates the configuration space as generated cases "
         "(11 writers x 17 formats x 7x7 size classes, every hint value in / out of range for 10 hint keys, hint combinations: 17 136 "
         "configurations). The driver replays them x content classes (empty, 1 char, 4000 bytes, invalid UTF-8, non-Latin, per-symbology "
         "boundary contents, seeded bytes) plus Data Matrix (mode machine under size hints) and Code 128 families on the real writers, each "
         "call in a worker process under recover() and a CPU-time watchdog; TLC judges every call. Thorough replays the whole space.",
    design_ref="DESIGN.md section 6 C12",
    note="Trusted: TLC; EncTotality.tla with QRTables / DMTables / OneD / Charset; harness/c12 (hang = 2 s of processor time or 30 s wall). Hint values "
         "of the documented types only; sizes up to 10x the symbol, margins up to 2000.",
    technique="TLA+ call/return contract of Writer.Encode; TLC model checking of the contract + TLC enumeration of the configuration space + trace validation of real calls")
CHECKS["C09"] = dict(
    category="model_checking",
    text="spec/Retry.tla gives the readers' retry logic as automata with abstract inner attempts (OneDReader row scan middle-out, forward "
         "then reversed, quarter-turn retry with orientation (270+o) mod 360; the QR decoder's plain-then-mirrored reading); MC_Retry proves "
         "over every small scenario that a reversed success gives 180, the turn happens only with TRY_HARDER, the mirrored flag is set "
         "exactly on a second-pass success, the first reading's error is reported and the scan terminates. spec/Pose.tla defines a pose "
         "(transpose, integer upscale, padding, clockwise turn) as an exact pixel map; MC_Pose proves the composed transform equals the "
         "closed-form map; Gen_Pose enumerates the complete pose grid (pad {0,1,3,10} x scale 1..6 x 4 rotations x mirror (QR) x TRY_HARDER "
         "(1-D): 2016 cases for 11 symbologies). The driver writes seeded contents with the real writers, poses the image and reads it through "
         "the normal locating path; Trace_Pose judges every read: the content or a NotFound / Checksum / Format error, 1-D upside down = "
         "content with ORIENTATION 180 and sideways with TRY_HARDER = content (expectations computed by feeding the retry automaton the "
         "OneD.tla reference readings of the written row, forward and reversed), QR mirrored flag exactly when mirrored. Pose grid exhaustive, "
         "contents sampled.",
    design_ref="DESIGN.md section 6 C09",
    note="Trusted: TLC; OneD.tla reference readers; Pose.tla / Retry.tla; the harness pixel transform (itself checked by xform events). Exactly bilevel "
         "renderings. Not judged (the property does not demand it): locating success for QR / DM at image level, which of Format / Checksum is "
         "reported. Known findings C09-upce-default-quiet-zone and C09-upce-reversed-row-misread are open.",
    technique="TLA+ retry automata + exact pixel-map pose spec; TLC model checking, TLC-enumerated pose grid replayed on the real writers/readers, trace validation against reference readers")
CHECKS["C06"] = dict(
    category="model_checking",
    text="spec/Totality.tla is the call/return contract (result xor error, allowed error kinds per API class, no panic, no hang) with the "
         "readers' retry compositions; spec/TotalParse.tla gives the QR, Data Matrix and Aztec bit-stream parsers as total reference automata "
         "whose outcome class is ok / format / any. TLC model-checks the contract (every retry composition over all inner outcome vectors "
         "stays total and of a documented kind; the ECI set equals the Charset registry) and enumerates exhaustively every symbol sequence up "
         "to a depth over branch-hitting alphabets (QR bytes x 3 version classes, Data Matrix codewords per mode, all Aztec bit strings up to "
         "12 (15) bits plus code / FLG(n) sequences) and 1-D symbols with correct check characters but arbitrary symbol characters. Every input "
         "runs on the real parsers, readers and row decoders; TLC validates every recorded call: no panic, no hang, exactly one of result / "
         "error, image and row readers return only NotFound / Checksum / Format, and the parser outcome class equals the reference automaton's. "
         "ECI values 0..999 999 go through all designator forms as block events; a seeded structured fuzz of 17 reader variants, 3 matrix "
         "decoders (square and non-square) and 13 row decoders covers synthetic images, mutated symbols of every writer, sample images and hint maps.",
    design_ref="DESIGN.md section 6 C06",
    note="Trusted: TLC; Totality.tla / TotalParse.tla (ISO 18004, 16022, 24778); golang.org/x/text decoders being total; harness/c06 (recover + 20 s "
         "watchdog, error-kind projection by dynamic type). Class 'any' wherever the standards leave the outcome open. Decoded text is not "
         "compared here (C01 / C02 / C11).",
    technique="TLA+ call/return contract + total reference parser automata; TLC-enumerated branch-hitting inputs replayed on the real code; sharded trace validation of every recorded call")

NOT_YET = {
}
