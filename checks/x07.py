"""X07 (beyond the listed properties) - the row schedule of every 1-D reader (oned.OneDReader.doDecode).
spec/RowScan.tla gives the schedule (middle row, then alternately above and below, rowStep apart, 15 rows or - TRY_HARDER - the
whole height) and FirstIn: the row that answers when exactly the rows of a set Y carry a symbol.  MC_RowScan proves for every height
1..700 in both modes: rows inside the image and distinct, TRY_HARDER below 512 rows visits EVERY row, every band of rowStep rows in
the scheduled span holds a scheduled row.  Trace_RowScan judges the real Code128Reader on images in which only chosen rows carry a
symbol: found or not, and the row the answer came from, must be the model's (no hook: the result points carry the row)."""
import json, random
import vlib


def sched(h, th):
    step = max(1, h >> (8 if th else 5))
    out = []
    for x in range(h if th else 15):
        k = (x + 1) // 2
        r = h // 2 + step * k if x % 2 == 0 else h // 2 - step * k
        if r < 0 or r >= h:
            break
        out.append(r)
    return out


def run(ctx, inputs=None, label="row schedule"):
    if inputs is None:
        res = vlib.run_tlc(ctx, "MC_RowScan", "MC_RowScan", workers=vlib.NCPU, timeout=900)
        ctx.note("MC_RowScan: %d states: schedule laws hold for every height 1..700, both modes" % res.generated)
        rng = random.Random(ctx.seed * 32452843 + (1 if ctx.quick else 2))
        inputs = []
        heights = [1, 2, 3, 15, 16, 31, 32, 33, 63, 64, 65, 100, 255, 256, 257, 480, 511, 512, 513, 600]
        for _ in range(400 if ctx.quick else 6000):
            h = rng.choice(heights) if rng.random() < 0.6 else rng.randint(1, 640)
            th = rng.randint(0, 1)
            s = sched(h, bool(th))      # only used to AIM the rows (near / on / between scheduled rows); the verdict is TLC's
            k = rng.random()
            if k < 0.3:
                rows = [rng.choice(s)]
            elif k < 0.55:              # one off a scheduled row
                rows = [rng.choice(s) + rng.choice([-1, 1])]
            elif k < 0.7:               # beyond the scheduled span
                rows = [rng.choice([min(s) - 1, max(s) + 1, 0, h - 1])]
            elif k < 0.9:               # several rows: the FIRST scheduled one must answer
                rows = sorted(set(rng.randrange(h) for _ in range(rng.randint(2, 6))) | ({rng.choice(s)} if rng.random() < 0.5 else set()))
            else:
                rows = []
            rows = [r for r in rows if 0 <= r < h]
            inputs.append(dict(op="scan", h=h, th=th, rows=rows))
    obs = vlib.drive(ctx, "x07", inputs, timeout=2400)
    bad = vlib.validate(ctx, "Trace_RowScan", obs, stateless=True, timeout=1500)
    ctx.traces += 1
    found = 0
    for o in obs:
        found += 1 - o["err"]
        ctx.count_case((o["h"], o["th"], tuple(o["rows"])))
    ctx.note("%d of %d images answered" % (found, len(obs)))
    for gi, ent in bad:
        o = obs[gi]
        vlib.reject(ctx, dict(op="scan", h=o["h"], th=o["th"], why=ent[1]),
                    "%s: height %d, TRY_HARDER=%d, symbol rows %s: err=%d answered from row %d: %s" % (label, o["h"], o["th"], o["rows"], o["err"], o["y"], ent[1]),
                    replay_events=inputs[gi:gi + 1])
    ctx.exhaustive = False
    return vlib.finish(ctx, rule="one case = one image (height, mode, rows carrying the symbol); found / not and the answering row compared with the model",
                       assumptions=["a row carrying the Code 128 symbol at one pixel per module decodes; a white row does not"],
                       trusted=["TLC", "spec/RowScan.tla"])


def replay(ctx, path):
    r = json.load(open(path))
    return run(ctx, inputs=r["inputs"], label="replay")
