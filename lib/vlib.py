"""Common machinery of /verif/bin/check (python3 stdlib only).

Pipeline shared by all properties (DESIGN.md section 3 and 7):
  build harness from /repo's working tree (-tags verif)  ->  TLC model checking of the design spec
  -> inputs (TLC-generated behaviours + seeded generators) -> `vdrive <prop> exec` on the REAL code
  -> observation trace (ndjson) -> TLC trace validation (sharded) -> rejected events
  -> re-execution of every rejected event on the real code -> known finding | VIOLATION -> evidence.
Exit codes: 0 held, 1 violation, 2 infrastructure problem (never reported as a violation).
"""
import json, os, re, shutil, subprocess, sys, tempfile, threading, time, concurrent.futures, hashlib

VERIF = os.path.dirname(os.path.dirname(os.path.abspath(__file__)))
REPO = os.environ.get("VERIF_REPO", "/repo")
SPEC = os.path.join(VERIF, "spec")
HARNESS = os.path.join(VERIF, "harness")
NCPU = os.cpu_count() or 4


class Infra(Exception):
    """Anything that prevents a verdict: build failure, TLC crash, timeout, dead driver."""


def goenv():
    e = dict(os.environ)
    e.update(GOFLAGS="-mod=mod", GOPROXY="off", GOSUMDB="off", GOTOOLCHAIN="local")
    return e


class Ctx:
    def __init__(self, prop, tier, seed):
        self.prop, self.tier, self.seed = prop, tier, seed
        self.t0 = time.time()
        self.scratch = tempfile.mkdtemp(prefix="verif-%s-" % prop)
        self.n = 0
        self.states = 0          # TLC states generated over all runs (design MC + validation)
        self.distinct = 0
        self.transitions = 0
        self.traces = 0          # traces of the real code validated
        self.evaluations = 0     # events of the real code judged by TLC
        self.nontrivial = set()  # digests of distinct non-trivial cases
        self.samples = []
        self.cmds = []
        self.mc = []             # per TLC run: module, cfg, generated, distinct, wall
        self.notes = []
        self.exhaustive = None
        self.vdrive = None
        self.rejected = []       # dicts {event, why, replay}
        self.known = []
        self.extra = {}
        self.quick = tier == "quick"
        self.is_replay = False
        self._lock = threading.Lock()

    def dir(self, name=None):
        with self._lock:
            self.n += 1
            n = self.n
        d = os.path.join(self.scratch, "%s%d" % (name or "d", n))
        os.makedirs(d)
        return d

    def cleanup(self):
        shutil.rmtree(self.scratch, ignore_errors=True)

    def note(self, s):
        self.notes.append(s)
        print("  note:", s, flush=True)

    def sample(self, s, cap=6):
        if len(self.samples) < cap:
            self.samples.append(s)

    def count_case(self, key, nontrivial=True):
        self.evaluations += 1
        if nontrivial:
            self.nontrivial.add(hashlib.blake2b(repr(key).encode(), digest_size=8).digest())


# ---------------------------------------------------------------- harness
def build_harness(ctx, prog, race=False):
    """go build -tags verif of /verif/harness/<prog> against /repo's current working tree."""
    out = os.path.join(ctx.scratch, "vdrive-%s%s" % (prog, "-race" if race else ""))
    if os.path.exists(out):
        return out
    src = os.path.join(ctx.scratch, "hsrc")
    if not os.path.exists(src):
        shutil.copytree(HARNESS, src)
        gosum = os.path.join(REPO, "go.sum")
        if os.path.exists(gosum):       # go.sum must be the repo's (offline, GOFLAGS=-mod=mod)
            shutil.copy(gosum, os.path.join(src, "go.sum"))
        if REPO != "/repo":
            p = os.path.join(src, "go.mod")
            s = open(p).read().replace("=> /repo", "=> " + REPO)
            open(p, "w").write(s)
    cover = []
    if os.environ.get("VERIF_COVERDIR"):
        deps = subprocess.run(["go", "list", "-tags", "verif", "-deps", "./" + prog], cwd=src, env=goenv(), capture_output=True, text=True).stdout
        cover = ["-cover", "-coverpkg=" + ",".join(l for l in deps.split() if l.startswith("github.com/makiuchi-d/gozxing") or l.startswith("verifharness"))]  # main must be instrumented too or nothing is written
    cmd = ["go", "build", "-tags", "verif"] + (["-race"] if race else []) + cover + ["-o", out, "./" + prog]
    t = time.time()
    r = subprocess.run(cmd, cwd=src, env=goenv(), capture_output=True, text=True)
    if r.returncode != 0:
        raise Infra("harness build failed:\n" + r.stdout + r.stderr)
    ctx.cmds.append("(cd harness && %s)  # %.1fs" % (" ".join(cmd[:-3] + ["./" + prog]), time.time() - t))
    return out


def vdrive(ctx, prog, args, stdin=None, timeout=1800, race=False, env=None):
    exe = build_harness(ctx, prog, race)
    e = goenv()
    e["VERIF_SEED"] = str(ctx.seed)
    e["VERIF_TIER"] = ctx.tier
    if os.environ.get("VERIF_COVERDIR"):    # statement coverage of the library under the drivers (bin/coverage), informational
        e["GOCOVERDIR"] = os.environ["VERIF_COVERDIR"]
    if env:
        e.update(env)
    try:
        r = subprocess.run([exe] + args, input=stdin, capture_output=True, text=True, timeout=timeout, env=e)
    except subprocess.TimeoutExpired:
        raise Infra("vdrive %s %s timed out after %ds" % (prog, " ".join(args), timeout))
    if r.returncode != 0:
        raise Infra("vdrive %s %s exited %d:\n%s" % (prog, " ".join(args), r.returncode, (r.stderr or r.stdout)[-4000:]))
    return r.stdout


def read_ndjson(path):
    out = []
    with open(path) as f:
        for line in f:
            line = line.strip()
            if line:
                out.append(json.loads(line))
    return out


def write_ndjson(path, events):
    with open(path, "w") as f:
        for e in events:
            f.write(json.dumps(e, separators=(",", ":")) + "\n")


def drive(ctx, prop_cmd, inputs, extra_args=(), timeout=1800, race=False, env=None):
    """Run inputs (list of dict) through the real code: `vdrive <cmd> exec in out`; returns observed events."""
    d = ctx.dir("drv")
    fin, fout = os.path.join(d, "in.ndjson"), os.path.join(d, "out.ndjson")
    write_ndjson(fin, inputs)
    vdrive(ctx, prop_cmd, ["exec", fin, fout] + list(extra_args), timeout=timeout, race=race, env=env)
    out = read_ndjson(fout)
    if len(out) != len(inputs):
        raise Infra("driver %s returned %d events for %d inputs" % (prop_cmd, len(out), len(inputs)))
    return out


# ---------------------------------------------------------------- TLC
_STAT = re.compile(r"(\d+) states generated, (\d+) distinct states found")
_SIM = re.compile(r"The number of states generated: (\d+)")


class TLCRun:
    pass


def run_tlc(ctx, module, cfg=None, files=None, workers=1, timeout=900, args=(), consts=None,
            ok_codes=(0,), xmx=None, keep=False):
    """Run TLC on spec/<module>.tla with spec/<cfg>.cfg in a fresh scratch dir holding copies of all specs.
    files: {name: path|list-of-events|str} placed next to the spec (traces, tables)."""
    d = ctx.dir("tlc")
    for f in os.listdir(SPEC):
        if f.endswith(".tla") or f.endswith(".cfg") or f.endswith(".json"):
            os.symlink(os.path.join(SPEC, f), os.path.join(d, f))
    for name, v in (files or {}).items():
        p = os.path.join(d, name)
        if os.path.islink(p):
            os.unlink(p)
        if isinstance(v, list):
            write_ndjson(p, v)
        elif isinstance(v, str) and os.path.exists(v):
            shutil.copy(v, p)
        else:
            open(p, "w").write(v)
    cfgname = (cfg or module) + ".cfg"
    if consts:  # derive a cfg with overridden constants
        base = open(os.path.join(SPEC, cfgname)).read()
        lines = [l for l in base.splitlines() if not any(re.match(r"\s*%s\s*=" % k, l) for k in consts)]
        out, seen = [], False
        for l in lines:
            out.append(l)
            if l.strip().startswith("CONSTANT") and not seen:
                seen = True
                for k, v in consts.items():
                    out.append("  %s = %s" % (k, v))
        if not seen:
            out.append("CONSTANTS")
            for k, v in consts.items():
                out.append("  %s = %s" % (k, v))
        cfgname = "gen_%d.cfg" % ctx.n
        open(os.path.join(d, cfgname), "w").write("\n".join(out) + "\n")
    cmd = [os.path.join(VERIF, "bin", "tlcx"), "-workers", str(workers), "-metadir", os.path.join(d, "meta"),
           "-config", cfgname] + list(args) + [module + ".tla"]
    env = dict(os.environ)
    if xmx:
        env["TLCX_XMX"] = xmx
    t = time.time()
    try:
        r = subprocess.run(cmd, cwd=d, capture_output=True, text=True, timeout=timeout, env=env)
    except subprocess.TimeoutExpired:
        raise Infra("TLC %s/%s timed out after %ds" % (module, cfgname, timeout))
    res = TLCRun()
    res.dir, res.out, res.rc, res.wall = d, r.stdout + r.stderr, r.returncode, time.time() - t
    m = _STAT.findall(res.out)
    res.generated, res.distinct = (int(m[-1][0]), int(m[-1][1])) if m else (0, 0)
    if not m and _SIM.search(res.out):
        res.generated = res.distinct = int(_SIM.findall(res.out)[-1])
    ctx.states += res.generated
    ctx.distinct += res.distinct
    ctx.transitions += max(res.generated - 1, 0)
    ctx.mc.append(dict(module=module, cfg=cfgname, workers=workers, generated=res.generated,
                       distinct=res.distinct, wall_s=round(res.wall, 1), rc=res.rc))
    if len(ctx.cmds) < 12:
        ctx.cmds.append("bin/tlcx -workers %d -config %s %s %s.tla  # %d states, %.1fs" % (
            workers, cfgname, " ".join(args), module, res.generated, res.wall))
    if res.rc not in ok_codes:
        tail = res.out[-3000:]
        raise Infra("TLC %s/%s exited %d:\n%s" % (module, cfgname, res.rc, tail))
    return res


def tlc_printed(res, tag="GEN"):
    """Values a spec printed with PrintT(<<"GEN", ToJson(v)>>) (behaviour generation), parsed back from TLC's output."""
    out = []
    for line in res.out.splitlines():
        mm = re.match(r'^<<"%s", "(.*)">>$' % tag, line.strip())
        if mm:
            out.append(json.loads(mm.group(1).replace('\\"', '"').replace("\\\\", "\\")))
    return out


def shard_events(events, n, stateless, reset_op=("reset", "tmpl")):
    """Split a trace into <= n contiguous shards; stateful traces are only cut before a reset event."""
    if not events:
        return []
    n = max(1, min(n, len(events)))
    target = (len(events) + n - 1) // n
    shards, cur, base = [], [], 0
    for i, e in enumerate(events):
        if cur and len(cur) >= target and (stateless or e.get("op") in reset_op):
            shards.append((base, cur))
            base, cur = i, []
        cur.append(e)
    if cur:
        shards.append((base, cur))
    return shards


def validate(ctx, module, events, cfg=None, shards=None, stateless=True, timeout=1500, files=None,
             trace_name="trace.ndjson", consts=None, xmx=None):
    """Trace validation: TLC consumes the events; the trace spec writes bad.json = [n |-> consumed, bad |-> <<...>>]
    where every bad entry is a sequence starting with the 1-based event index.  Returns list of (global index, entry)."""
    if not events:
        return []
    sh = shard_events(events, shards or NCPU, stateless)

    def one(s):
        base, evs = s
        f = dict(files or {})
        f[trace_name] = evs
        res = run_tlc(ctx, module, cfg, files=f, workers=1, timeout=timeout, consts=consts, xmx=xmx)
        p = os.path.join(res.dir, "bad.json")
        if not os.path.exists(p):
            raise Infra("trace spec %s wrote no bad.json:\n%s" % (module, res.out[-3000:]))
        b = json.load(open(p))
        if b.get("n") != len(evs):
            raise Infra("trace spec %s consumed %s of %d events:\n%s" % (module, b.get("n"), len(evs), res.out[-2000:]))
        out = []
        for ent in b.get("bad", []):
            idx = ent[0] if isinstance(ent, list) else ent
            out.append((base + idx - 1, ent))
        shutil.rmtree(res.dir, ignore_errors=True)
        return out

    bad = []
    with concurrent.futures.ThreadPoolExecutor(max_workers=NCPU) as ex:
        for r in ex.map(one, sh):
            bad.extend(r)
    ctx.evaluations += 0
    return bad


# ---------------------------------------------------------------- verdicts
_KNOWN = None


def load_known():
    global _KNOWN
    if _KNOWN is None:
        _KNOWN = _load_known()
    return _KNOWN


def _load_known():
    """known_findings.json (committed index) plus known/<ID>.json (per-property lists, same entry format)."""
    out = []
    p = os.path.join(VERIF, "known_findings.json")
    if os.path.exists(p):
        out += json.load(open(p)).get("findings", [])
    d = os.path.join(VERIF, "known")
    if os.path.isdir(d):
        for f in sorted(os.listdir(d)):
            if f.endswith(".json"):
                out += json.load(open(os.path.join(d, f)))
    return out


def _get(ev, path):
    cur = ev
    for part in path.split("."):
        if isinstance(cur, dict):
            cur = cur.get(part)
        elif isinstance(cur, list) and part.lstrip("-").isdigit() and -len(cur) <= int(part) < len(cur):
            cur = cur[int(part)]
        else:
            return None
    return cur


def match_known(prop, ev, preds=None):
    """A rejected event matches a listed finding when every `match` field equals the event's field and every
    named predicate in `where` (implemented by the property's module) holds."""
    for k in load_known():
        if k.get("property") != prop or k.get("status", "open") != "open":
            continue
        if all(_get(ev, f) == v for f, v in k.get("match", {}).items()) and \
           all((preds or {}).get(name, lambda e: False)(ev) for name in k.get("where", [])):
            return k
    return None


def reject(ctx, ev, why, replay_events=None, preds=None):
    """Record a rejected observation of the real code (already reproduced by the caller, or reproduced here
    through ctx.reproduce)."""
    k = match_known(ctx.prop, ev, preds)
    if k is not None:
        if k["id"] not in [x["id"] for x in ctx.known]:
            ctx.known.append(k)
        return
    d = os.path.join(VERIF, "replays", ctx.prop)
    os.makedirs(d, exist_ok=True)
    n = len(ctx.rejected) + 1
    if n > 50:
        ctx.rejected.append(dict(why=why, replay=None))
        return
    path = os.path.join(d, "%s-%s-%d.json" % (ctx.tier, ctx.seed, n))
    json.dump(dict(property=ctx.prop, why=why, event=ev, inputs=replay_events or [ev]), open(path, "w"), indent=1)
    ctx.rejected.append(dict(why=why, replay=path))


def finish(ctx, level="model_checking", rule="", assumptions=(), trusted=()):
    wall = time.time() - ctx.t0
    for k in ctx.known:
        print("KNOWN-FINDING: property=%s %s" % (ctx.prop, k["what"]))
    seen = 0
    for r in ctx.rejected:
        if r["replay"] and seen < 20:
            print("VIOLATION property=%s replay=%s  # %s" % (ctx.prop, r["replay"], r["why"]))
            seen += 1
    cov = dict(states=ctx.states, transitions=ctx.transitions, distinct_states=ctx.distinct,
               traces_validated_against_impl=ctx.traces, evaluations=ctx.evaluations,
               distinct_nontrivial=len(ctx.nontrivial), rule=rule, samples=ctx.samples[:8],
               checker_cmd="; ".join(ctx.cmds[:12]), tlc_runs=ctx.mc[:40], notes=ctx.notes,
               known_findings=[k["id"] for k in ctx.known], trusted_base=list(trusted))
    if ctx.exhaustive is not None:
        cov["exhaustive"] = bool(ctx.exhaustive)
    cov.update(ctx.extra)
    ev = dict(property_id=ctx.prop, tier=ctx.tier, seed=ctx.seed, level=level, coverage=cov,
              assumptions=list(assumptions), wall_s=round(wall, 1), violations=len(ctx.rejected))
    # a --replay run judges one recorded case, and a run against a scratch worktree (VERIF_REPO: seeded changes) is not about /repo:
    # neither may replace the evidence of the last full run on /repo itself
    if not ctx.is_replay and REPO == "/repo":
        # checks beyond the listed properties (X..: specification growth) report under extra/, not among the properties' evidence
        sub = "evidence" if ctx.prop.startswith("C") else "extra"
        os.makedirs(os.path.join(VERIF, sub), exist_ok=True)
        json.dump(ev, open(os.path.join(VERIF, sub, ctx.prop + ".json"), "w"), indent=1)
    print("%s %s seed=%d: %d TLC states, %d impl events judged, %d traces, %d rejected, %d known, %.1fs" % (
        ctx.prop, ctx.tier, ctx.seed, ctx.states, ctx.evaluations, ctx.traces, len(ctx.rejected),
        len(ctx.known), wall), flush=True)
    return 1 if ctx.rejected else 0
